"""C02 — generated classes are faithful to the XML Schema they came from.

Monitor shape: independent validators + reference model per generated program. A seeded schema set
(vf/xsdgen.py IR, compiled by libxml2 first) goes through the real generator in a subprocess; schema-valid
instance documents (written by the harness from the same IR: minimal, maximal and random occurrence
choices, xsi:type substitutes, nil, defaults left to apply; validated by libxml2 before use) are parsed in
a fresh interpreter into the generated classes under the strictest settings and serialized again. The
oracle is the harness's own schema-directed typed canonical form (vf.xsdgen.canon_doc: defaults applied,
prefixes and insignificant whitespace gone, leaves compared in the value space of their XSD type) of
input and output; for the order-preserving sub-fragment the output must also keep element order and
validate against the schema. A second generation with other output-only options must accept the same
documents and produce outputs with the same canonical form.
"""

from __future__ import annotations

import json
import os
import random
import shutil
import tempfile

from lxml import etree

from vf import gen, xsdgen

ID = "C02"
LEVEL = "exploration"
RULE = (
    "case = (schema set, option set A, option set B, instance documents). Schema sets from the IR generator: 1-2 files with import, "
    "qualified/unqualified forms and per-declaration overrides, named and anonymous complex types, sequence/choice/all with nesting and "
    "occurrence ranges, element refs, restriction/list/union/enumeration simple types, attributes with use/default/fixed, wildcards "
    "(##other), anyAttribute, complexContent extension + xsi:type substitution, simpleContent, nillable, mixed, recursion; 40% of the "
    "sets stay inside the order-preserving sub-fragment (repetition only on single elements / choices of single elements, compound "
    "fields on). Documents: minimal / maximal / random per global element, all validated by libxml2 before use. Non-trivial = the "
    "document has at least 3 elements or attributes; distinct = distinct (schema bytes, document bytes, option set)."
)
ASSUMPTIONS = [
    "libxml2's XML Schema validator decides schema-validity of inputs (and of outputs in the ordered sub-fragment)",
    "vf.xsdgen.canon_doc / typed_value (own value-space comparison built on vf.lexical) is the notion of 'same elements, attributes and typed values'",
    "fragment not covered by the generator: substitution groups, named model/attribute groups, xs:include, identity constraints, xs:redefine",
    "codegen stand-ins of /verif/shims (jinja2 interpreter, toposort, no-op ruff)",
]
MIN_DISTINCT = {"quick": 150, "thorough": 6000}
TIME = {"quick": 60, "thorough": 1500}
SHARDS = {"quick": 14, "thorough": 14}
REQUIRED_FEATURES = ["fragment:ordered", "fragment:general", "doc:minimal", "doc:maximal", "doc:random", "options:second-generation"]

POST_SCRIPT = r'''
import importlib, warnings
from xsdata.exceptions import ConverterWarning
from xsdata.formats.dataclass.context import XmlContext
from xsdata.formats.dataclass.parsers import XmlParser
from xsdata.formats.dataclass.parsers.config import ParserConfig
from xsdata.formats.dataclass.parsers.handlers import LxmlEventHandler, XmlEventHandler
from xsdata.formats.dataclass.serializers import XmlSerializer
from xsdata.formats.dataclass.serializers.config import SerializerConfig

for m in ARGS["modules"]:
    importlib.import_module(m)
ctx = XmlContext()
cfg = ParserConfig(fail_on_unknown_properties=True, fail_on_unknown_attributes=True, fail_on_converter_warnings=True)
out = []
for i, d in enumerate(ARGS["docs"]):
    data = d.encode("latin-1")
    handler = LxmlEventHandler if i % 2 == 0 else XmlEventHandler
    rec = {"handler": handler.__name__}
    try:
        with warnings.catch_warnings():
            warnings.simplefilter("error", ConverterWarning)
            obj = XmlParser(context=ctx, config=cfg, handler=handler).from_bytes(data)
        rec["cls"] = type(obj).__module__ + "." + type(obj).__qualname__
        # a root carrying xsi:type comes back wrapped in the generic DerivedElement (qname + value)
        rec["qname"] = obj.qname if type(obj).__name__ == "DerivedElement" else ctx.build(type(obj)).qname
    except Exception as e:
        import traceback
        rec["parse_error"] = type(e).__name__ + ": " + str(e)[:600]
        rec["traceback"] = "".join(traceback.format_exception(type(e), e, e.__traceback__))[-1800:]
        out.append(rec)
        continue
    try:
        rec["out"] = XmlSerializer(context=ctx, config=SerializerConfig(indent="  " if i % 3 == 0 else None)).render(obj, ns_map=dict(ARGS["ns_map"]) if ARGS.get("ns_map") else None)
    except Exception as e:
        rec["render_error"] = type(e).__name__ + ": " + str(e)[:600]
    out.append(rec)
RESULT = out
'''

OUTPUT_ONLY = ["output.structure_style", "output.unnest_classes", "output.format.frozen", "output.format.slots", "output.docstring_style", "output.relative_imports", "output.generic_collections"]


def gen_options(rng, compound):
    cfg = {"output.compound_fields.enabled": compound}
    if rng.random() < 0.7:
        cfg["output.structure_style"] = rng.choice(["filenames", "namespaces", "clusters", "single-package", "namespace-clusters"])
    for k, p in (("output.unnest_classes", 0.35), ("output.relative_imports", 0.3), ("output.format.slots", 0.3)):
        if rng.random() < p:
            cfg[k] = True
    if rng.random() < 0.3:
        cfg["output.format.frozen"] = True
    elif rng.random() < 0.4:
        cfg["output.generic_collections"] = True
    if rng.random() < 0.5:
        cfg["output.docstring_style"] = rng.choice(["reStructuredText", "NumPy", "Google", "Accessible", "Blank"])
    if cfg.get("output.unnest_classes") and cfg.get("output.structure_style") in ("namespaces", "namespace-clusters"):
        # open known finding C02/no-namespace-class-in-namespaces-structure (probe below): an unnested class of an
        # unqualified local element has no namespace and lands in a module that clashes with the package
        cfg["output.structure_style"] = "filenames"
    return cfg


def compile_schema(files):
    d = tempfile.mkdtemp(prefix="xsdata-verif-c02-")
    try:
        for fn, txt in files.items():
            with open(os.path.join(d, fn), "w", encoding="utf-8") as f:
                f.write(txt)
        return etree.XMLSchema(etree.parse(os.path.join(d, "main.xsd")))
    finally:
        shutil.rmtree(d, ignore_errors=True)


def count_nodes(data):
    root = etree.fromstring(data)
    return sum(1 + len(e.attrib) for e in root.iter() if isinstance(e.tag, str))


def norm(msg):
    import re

    msg = re.sub(r"c2x\d+", "#", str(msg))
    msg = re.sub(r"0x[0-9a-f]+", "0x..", msg)
    msg = re.sub(r"'[^']{0,80}'|`[^`]{0,80}`|\"[^\"]{0,80}\"", "'..'", msg)
    msg = re.sub(r"\{[^}]*\}", "{..}", msg)
    msg = re.sub(r"\d+", "N", msg)
    return msg[:100]


def first_diff(a, b, path="/"):
    """First differing spot of two canonical forms."""
    if a == b:
        return None
    if not (isinstance(a, tuple) and isinstance(b, tuple) and len(a) == 4 and len(b) == 4):
        return f"{path}: {a!r} != {b!r}"
    tag = a[0]
    p = f"{path}{tag.rsplit('}', 1)[-1]}"
    if a[0] != b[0]:
        return f"{path}: element {a[0]} vs {b[0]}"
    if a[1] != b[1]:
        da = dict(a[1]) if all(isinstance(x, tuple) and len(x) == 2 for x in a[1]) else a[1]
        db = dict(b[1]) if all(isinstance(x, tuple) and len(x) == 2 for x in b[1]) else b[1]
        if isinstance(da, dict) and isinstance(db, dict):
            for k in sorted(set(da) | set(db)):
                if da.get(k) != db.get(k):
                    return f"{p}/@{k.rsplit('}', 1)[-1]}: attribute {da.get(k)!r} vs {db.get(k)!r}"
        return f"{p}: attributes {a[1]!r} vs {b[1]!r}"
    if a[2] != b[2]:
        return f"{p}: value {a[2]!r} vs {b[2]!r}"
    if len(a[3]) != len(b[3]):
        ta, tb = [k[0].rsplit("}", 1)[-1] for k in a[3]], [k[0].rsplit("}", 1)[-1] for k in b[3]]
        return f"{p}: children {ta} vs {tb}"
    for x, y in zip(a[3], b[3]):
        d = first_diff(x, y, p + "/")
        if d:
            return d
    return f"{p}: ?"


def diff_kind(d):
    head = d.split(":", 2)
    what = head[1].strip().split(" ")[0] if len(head) > 1 else "?"
    return what


def check(ctx, seed):
    rng = random.Random(seed)
    salt = f"c2x{seed % 100000}"
    ordered_fragment = rng.random() < 0.4
    try:
        g = xsdgen.XsdGen(rng, salt, hostile=False, max_types=4, simple=ordered_fragment)
        ss = g.schema_set()
        files = xsdgen.Renderer(ss).render()
        schema = compile_schema(files)
    except Exception as e:  # noqa: BLE001
        ctx.drop(f"schema generator produced a set libxml2 does not compile: {type(e).__name__}")
        ctx.extra["schemas_rejected_by_libxml2"] = ctx.extra.get("schemas_rejected_by_libxml2", 0) + 1
        return
    ordered_fragment = ordered_fragment and ss.order_preserving
    compound = True if ordered_fragment else rng.random() < 0.5
    cfg_a = gen_options(rng, compound)
    cfg_b = gen_options(rng, compound)
    w = {"fn": "check", "seed": seed}
    ctx.feature("fragment:ordered" if ordered_fragment else "fragment:general", *[f"xsd:{f}" for f in ss.features], *[f"opt:{k}={v}" for k, v in cfg_a.items()])
    # instance documents
    docs, modes = [], []
    for root in ss.main.elements:
        for mode in ("minimal", "maximal", "random", "random"):
            try:
                # with compound fields an empty element does not get its schema default: open known finding
                # C02/compound-choice-loses-element-default (probe below)
                data = xsdgen.DocGen(ss, rng, mode, empty_defaults=not compound).document(root)
            except Exception as e:  # noqa: BLE001
                ctx.drop(f"document generator failed: {type(e).__name__}: {e}")
                continue
            try:
                ok = schema.validate(etree.fromstring(data))
            except Exception:  # noqa: BLE001
                ok = False
            if not ok:
                ctx.drop("document generator produced an instance libxml2 finds invalid")
                ctx.extra["instances_rejected_by_libxml2"] = ctx.extra.get("instances_rejected_by_libxml2", 0) + 1
                continue
            if data not in docs:
                docs.append(data)
                modes.append(mode)
    if not docs:
        return
    key_src = json.dumps(files, sort_keys=True)
    results = {}
    for label, cfg in (("A", cfg_a), ("B", cfg_b)):
        res = gen.generate(files, entry=["main.xsd"], config=cfg, route="api", hashseed=0, timeout=240, hooks=False)
        if res.status in ("timeout", "crash"):
            ctx.inconc(f"generation {res.status} (seed {seed})")
            return
        if res.status != "ok":
            ctx.violation(f"generation-fails/{res.exc_type}/{norm(res.message)}", f"{res.exc_type}: {res.message}\n{(res.traceback or '')[-1200:]}\noptions={cfg}\n{files['main.xsd'][:1500]}", w)
            return
        run = gen.run_in_package(res.files, POST_SCRIPT, args={"modules": gen.package_modules(res.files), "docs": [d.decode("latin-1") for d in docs]}, timeout=240)
        if run.status == "timeout":
            ctx.inconc(f"post-check watchdog fired (seed {seed})")
            return
        if run.status != "ok":
            ctx.violation(f"import-fails/{run.exc_type}/{norm(run.message)}", f"{run.exc_type}: {run.message}\n{run.stderr[-1200:]}\noptions={cfg}\n{files['main.xsd'][:1500]}", w)
            return
        results[label] = run.result
        if label == "B":
            ctx.feature("options:second-generation")
    for i, (data, mode) in enumerate(zip(docs, modes)):
        ctx.feature(f"doc:{mode}")
        ra, rb = results["A"][i], results["B"][i]
        ctx.case(key_src, data, json.dumps(cfg_a, sort_keys=True), nontrivial=count_nodes(data) >= 3)
        ctx.evals()
        shown = f"options={cfg_a}\n--- document ({mode})\n{data.decode('utf-8', 'replace')[:1500]}\n--- main.xsd\n{files['main.xsd'][:2500]}"
        if "parse_error" in ra:
            ctx.violation(f"valid-document-rejected/{norm(ra['parse_error'])}", f"{ra['handler']}: {ra['parse_error']}\n{ra.get('traceback', '')[-900:]}\n{shown}", {**w, "doc": i})
            continue
        if "render_error" in ra:
            ctx.violation(f"serialize-fails/{norm(ra['render_error'])}", f"{ra['render_error']}\n{shown}", {**w, "doc": i})
            continue
        root_tag = etree.fromstring(data).tag
        if ra["qname"] != root_tag:
            ctx.violation("wrong-root-class", f"root {root_tag} parsed into {ra['cls']} whose qname is {ra['qname']}\n{shown}", {**w, "doc": i})
            continue
        out = ra["out"].encode("utf-8")
        try:
            cin, pin = xsdgen.canon_doc(ss, data, ordered=False)
            cout, pout = xsdgen.canon_doc(ss, out, ordered=False)
        except Exception as e:  # noqa: BLE001
            ctx.violation(f"output-not-interpretable/{type(e).__name__}/{norm(e)}", f"{type(e).__name__}: {e}\n--- output\n{ra['out'][:1500]}\n{shown}", {**w, "doc": i})
            continue
        if pin:
            ctx.drop(f"harness canonical form has a problem with its own input: {pin[0][:80]}")
            continue
        if pout:
            ctx.violation(f"output-structure/{norm(pout[0])}", f"{pout[0]}\n--- output\n{ra['out'][:1500]}\n{shown}", {**w, "doc": i})
            continue
        if cin != cout:
            d = first_diff(cin, cout)
            ctx.violation(f"not-faithful/{diff_kind(d)}/{norm(d)}", f"{d}\n--- output\n{ra['out'][:1500]}\n{shown}", {**w, "doc": i})
            continue
        if ordered_fragment:
            oin, _ = xsdgen.canon_doc(ss, data, ordered=True)
            oout, _ = xsdgen.canon_doc(ss, out, ordered=True)
            if oin != oout:
                d = first_diff(oin, oout)
                ctx.violation(f"order-not-preserved/{norm(d)}", f"{d}\n--- output\n{ra['out'][:1500]}\n{shown}", {**w, "doc": i})
                continue
            try:
                valid = schema.validate(etree.fromstring(out))
            except Exception:  # noqa: BLE001
                valid = False
            if not valid:
                ctx.violation(f"output-not-schema-valid/{norm(schema.error_log.last_error.message if schema.error_log else '?')}", f"{schema.error_log.last_error if schema.error_log else ''}\n--- output\n{ra['out'][:1500]}\n{shown}", {**w, "doc": i})
                continue
        # option independence: the second generation accepts the same document and says the same
        if "parse_error" in rb or "render_error" in rb:
            ctx.violation(f"options-change-acceptance/{norm(rb.get('parse_error') or rb.get('render_error'))}", f"accepted with {cfg_a} but with {cfg_b}: {rb.get('parse_error') or rb.get('render_error')}\n{shown}", {**w, "doc": i})
            continue
        try:
            cb, pb = xsdgen.canon_doc(ss, rb["out"].encode("utf-8"), ordered=ordered_fragment)
            ca, _ = xsdgen.canon_doc(ss, out, ordered=ordered_fragment)
        except Exception as e:  # noqa: BLE001
            ctx.violation(f"options-change-output/{type(e).__name__}", f"{e}\n{shown}", {**w, "doc": i})
            continue
        if ca != cb or pb:
            d = first_diff(ca, cb) if ca != cb else pb[0]
            ctx.violation(f"options-change-output/{norm(d)}", f"{d}\nA={cfg_a}\nB={cfg_b}\n--- output A\n{ra['out'][:1000]}\n--- output B\n{rb['out'][:1000]}\n{shown}", {**w, "doc": i})
    ctx.extra["documents"] = ctx.extra.get("documents", 0) + len(docs)
    if len(ctx.samples) < 2 and docs:
        ctx.sample({"schema": files["main.xsd"][:900], "document": docs[-1].decode("utf-8", "replace")[:500], "output": results["A"][-1].get("out", "")[:500], "options": cfg_a})


# ----------------------------------------------------------------------------- probes for the open known findings
XSH = '<?xml version="1.0" encoding="UTF-8"?>\n<xs:schema xmlns:xs="http://www.w3.org/2001/XMLSchema" elementFormDefault="qualified">\n'
XSI_DECL = 'xmlns:xsi="http://www.w3.org/2001/XMLSchema-instance"'


def shape(data):
    """Plain infoset shape (names, attributes incl. xsi:nil, stripped text, children) - enough for the probes."""
    def walk(e):
        return (e.tag, tuple(sorted(e.attrib.items())), (e.text or "").strip(), (e.tail or "").strip(), tuple(walk(c) for c in e if isinstance(c.tag, str)))

    return walk(etree.fromstring(data))


def roundtrip(schema_text, doc, cfg):
    """-> ("same" | "differs" | "error", detail) or None when the probe could not run."""
    try:
        xs = etree.XMLSchema(etree.fromstring(schema_text.encode()))
        if not xs.validate(etree.fromstring(doc.encode())):
            return None
    except Exception:  # noqa: BLE001
        return None
    res = gen.generate({"main.xsd": schema_text}, entry=["main.xsd"], config=cfg, route="api", hooks=False, timeout=120)
    if res.status in ("timeout", "crash"):
        return None
    if res.status != "ok":
        return ("error", f"{res.exc_type}: {res.message}")
    run = gen.run_in_package(res.files, POST_SCRIPT, args={"modules": gen.package_modules(res.files), "docs": [doc]}, timeout=120)
    if run.status != "ok":
        return None
    r = run.result[0]
    if "out" not in r:
        return ("error", r.get("parse_error") or r.get("render_error"))
    return ("same" if shape(doc.encode()) == shape(r["out"].encode()) else "differs", r["out"])


def el(name, type_, extra=""):
    return f'<xs:element name="{name}" type="{type_}"{extra}/>'


def root_schema(body, mixed=False, more=""):
    return XSH + f'<xs:element name="root"><xs:complexType{" mixed=\"true\"" if mixed else ""}><xs:sequence>{body}</xs:sequence></xs:complexType></xs:element>{more}</xs:schema>'


PROBES = {
    # key: (bad case, counterfactual) each (schema, document, options); the bad case must not round-trip, the counterfactual must
    "C02/optional-nillable-absent-becomes-nil": (
        (root_schema(el("a", "xs:int") + el("b", "xs:int", ' minOccurs="0" nillable="true"')), "<root><a>1</a></root>", {}),
        (root_schema(el("a", "xs:int") + el("b", "xs:int", ' minOccurs="0"')), "<root><a>1</a></root>", {}),
    ),
    "C02/nil-lost-for-primitive-child-of-mixed-type": (
        (root_schema(el("a", "xs:int", ' nillable="true"'), mixed=True), f'<root {XSI_DECL}>t<a xsi:nil="true"/></root>', {}),
        (root_schema(el("a", "xs:int", ' nillable="true"'), mixed=False), f'<root {XSI_DECL}><a xsi:nil="true"/></root>', {}),
    ),
    "C02/qname-child-of-mixed-type-written-in-clark-notation": (
        (root_schema(el("a", "xs:QName"), mixed=True), '<root xmlns:xs="http://www.w3.org/2001/XMLSchema">t<a>xs:string</a></root>', {}),
        (root_schema(el("a", "xs:QName"), mixed=False), '<root xmlns:xs="http://www.w3.org/2001/XMLSchema"><a>xs:string</a></root>', {}),
    ),
    "C02/tail-after-wildcard-child-moves-into-the-child": (
        (root_schema('<xs:element name="part"><xs:complexType><xs:sequence><xs:any namespace="##other" processContents="lax" minOccurs="0"/>' + el("node", "xs:string") + "</xs:sequence></xs:complexType></xs:element>" + el("size", "xs:string"), mixed=True),
         "<root><part><node>x</node></part>tail<size>s</size></root>", {}),
        (root_schema('<xs:element name="part"><xs:complexType><xs:sequence>' + el("node", "xs:string") + "</xs:sequence></xs:complexType></xs:element>" + el("size", "xs:string"), mixed=True),
         "<root><part><node>x</node></part>tail<size>s</size></root>", {}),
    ),
    "C02/global-element-added-by-extension-of-mixed-type-written-as-sibling-choice": tuple(
        (XSH + f'''<xs:complexType name="T"><xs:sequence><xs:element name="v" type="xs:int"/></xs:sequence></xs:complexType>
<xs:element name="g" type="T"/>
<xs:complexType name="Base" mixed="{mixed}"><xs:sequence><xs:element name="note" type="T"/></xs:sequence></xs:complexType>
<xs:complexType name="Ext" mixed="{mixed}"><xs:complexContent><xs:extension base="Base"><xs:sequence><xs:element ref="g" minOccurs="0"/></xs:sequence></xs:extension></xs:complexContent></xs:complexType>
<xs:element name="root" type="Ext"/></xs:schema>''', doc, {}) for mixed, doc in (("true", "<root>t<note><v>1</v></note><g><v>2</v></g></root>"), ("false", "<root><note><v>1</v></note><g><v>2</v></g></root>"))
    ),
    "C02/compound-choice-loses-element-default": (
        (XSH + '<xs:element name="root"><xs:complexType><xs:choice maxOccurs="unbounded">' + el("a", "xs:decimal", ' default="1.5"') + el("b", "xs:string") + "</xs:choice></xs:complexType></xs:element></xs:schema>",
         "<root><a/><b>x</b><a>2</a></root>", {"output.compound_fields.enabled": True}),
        (XSH + '<xs:element name="root"><xs:complexType><xs:choice maxOccurs="unbounded">' + el("a", "xs:decimal", ' default="1.5"') + el("b", "xs:string") + "</xs:choice></xs:complexType></xs:element></xs:schema>",
         "<root><a>1.5</a><b>x</b><a>2</a></root>", {"output.compound_fields.enabled": True}),
    ),
}
NS_PROBE = ('<?xml version="1.0" encoding="UTF-8"?>\n<xs:schema xmlns:xs="http://www.w3.org/2001/XMLSchema" xmlns:tns="urn:t" targetNamespace="urn:t">'
            '<xs:element name="root"><xs:complexType><xs:choice maxOccurs="unbounded"><xs:element name="item" type="xs:string"/><xs:element name="other" type="xs:string"/></xs:choice></xs:complexType></xs:element></xs:schema>')


def run_probes(ctx):
    for key, (bad, good) in PROBES.items():
        ctx.evals()
        rb, rg = roundtrip(*bad), roundtrip(*good)
        if rb is None or rg is None:
            ctx.inconc(f"probe {key} could not run")
            continue
        # nil-with-default: the 'bad' output differs; qname: differs (text in Clark notation); default: error or differs
        if rb[0] in ("differs", "error") and rg[0] == "same":
            ctx.known_finding(key)
    ctx.evals()
    key = "C02/no-namespace-class-in-namespaces-structure"
    opts = {"output.compound_fields.enabled": True, "output.unnest_classes": True}
    bad = gen.generate({"main.xsd": NS_PROBE}, entry=["main.xsd"], config={**opts, "output.structure_style": "namespaces"}, route="api", hooks=False, timeout=120)
    good = gen.generate({"main.xsd": NS_PROBE}, entry=["main.xsd"], config={**opts, "output.structure_style": "filenames"}, route="api", hooks=False, timeout=120)
    if bad.status in ("timeout", "crash") or good.status in ("timeout", "crash"):
        ctx.inconc(f"probe {key} could not run")
    elif bad.status == "error" and good.status == "ok":
        ctx.known_finding(key)


def run_shard(ctx):
    rng = ctx.rng
    if ctx.shard == 0:
        run_probes(ctx)
    n = ctx.per_shard(ctx.pick(140, 5000))
    k = 0
    while k < n and (ctx.time_left() > 0 or len(ctx.fingerprints) < MIN_DISTINCT[ctx.tier] // ctx.nshards + 1):
        check(ctx, rng.getrandbits(40))
        k += 1


def replay(witness, ctx):
    check(ctx, witness["seed"])
