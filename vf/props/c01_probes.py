"""Dedicated deterministic probes for the open known findings of C01/C03 (their triggers are kept
out of the generated population so they cannot mask other defects). Each returns True while the
finding still reproduces on the working tree."""

from __future__ import annotations

from dataclasses import dataclass, field
from typing import Optional
from xml.etree.ElementTree import QName  # noqa: F401


def _rt(obj, ns_map=None, writer="native"):
    from vf import bindcase as bc

    xml = bc.render(None, obj, {"xml_declaration": False, "ns_map": [[k or "", v] for k, v in (ns_map or {}).items()] or None}, writer)
    return xml, bc.parse_strict(xml, type(obj), "native")


@dataclass
class _NilStr:
    v: Optional[str] = field(default=None, metadata={"type": "Element", "nillable": True})


@dataclass
class _TextReq:
    value: str = field(metadata={"type": "Text"})
    x: int = field(default=1, metadata={"type": "Attribute"})


@dataclass
class _TextOpt:
    value: Optional[str] = field(default=None, metadata={"type": "Text"})


@dataclass
class _AttrOnly:
    k: Optional[str] = field(default=None, metadata={"type": "Attribute"})


@dataclass
class _NilHolder:
    c: Optional[_AttrOnly] = field(default=None, metadata={"type": "Element", "nillable": True})


@dataclass
class _Base:
    class Meta:
        namespace = "urn:vf:probe"

    v: Optional[int] = field(default=None, metadata={"type": "Element"})


@dataclass
class _Derived(_Base):
    class Meta:
        namespace = ""

    w: Optional[int] = field(default=None, metadata={"type": "Element"})


@dataclass
class _Holder:
    class Meta:
        namespace = "urn:vf:probe"

    b: Optional[_Base] = field(default=None, metadata={"type": "Element"})


def empty_string_in_nillable_field():
    """'' in a nillable str element comes back as None (PrimitiveNode ignores that xsi:nil is absent)."""
    o = _NilStr(v="")
    xml, back = _rt(o)
    return back.v is None and 'nil' not in xml


def empty_string_in_text_field():
    """'' in a Text field cannot be read back: optional -> None, required -> constructor TypeError."""
    o = _TextOpt(value="")
    _, back = _rt(o)
    if back.value is not None:
        return False
    try:
        _rt(_TextReq(value=""))
    except Exception:  # noqa: BLE001
        return True
    return False


def nillable_field_object_without_content():
    """An object with attributes but no content in a nillable field is written with xsi:nil and read back as None."""
    o = _NilHolder(c=_AttrOnly(k="x"))
    xml, back = _rt(o)
    return back.c is None and 'k="x"' in xml


def unqualified_xsi_type_under_default_namespace():
    """xsi:type of a no-namespace class written unprefixed while a default namespace is in scope."""
    o = _Holder(b=_Derived(v=1, w=2))
    try:
        xml, back = _rt(o, {None: "urn:vf:probe"})
    except Exception:  # noqa: BLE001
        return True
    return type(back.b) is not _Derived


PROBES = {
    "C01/empty-string-in-nillable-field": empty_string_in_nillable_field,
    "C01/empty-string-in-text-field": empty_string_in_text_field,
    "C01/nillable-field-object-without-content": nillable_field_object_without_content,
    "C03/unqualified-xsi-type-under-default-namespace": unqualified_xsi_type_under_default_namespace,
}
