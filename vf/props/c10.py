"""C10 — strictness options do what they say.

Monitor shape: fault enumeration with a reference outcome computed from the model.
Clean documents (serializer output of generated models) get, one fault at a time:
  * an unknown element (6 subtree shapes) at *every* child position of every class-bound element,
  * an unknown attribute (unqualified, foreign namespace, xsi:*, xml:*) on every class-bound element,
  * a corrupted value in every typed (non-string) leaf element / attribute,
and are parsed under all 8 combinations of the three fail_on_* options by both handlers; the same
for the dictionary/JSON decoder with unknown keys and unconvertible values.
Expected outcome (from the IR, not from xsdata): a name is unknown at a position iff no field of the
enclosing class can take it (classes with a matching wildcard / attributes map are not injected).
"""

from __future__ import annotations

import copy
import itertools
import json
import random
import warnings

from vf import bindcase as bc
from vf import ir, rewrite, xmlkit
from vf.xmlkit import XSI, deep_diffs, deep_eq

ID = "C10"
LEVEL = "fault_enumeration"
RULE = (
    "case = (clean document, fault kind, position, shape, option combination, handler|decoder). Faults are enumerated: every child "
    "position of every class-bound element x 6 unknown-subtree shapes; every class-bound element x 4 unknown-attribute kinds; every "
    "typed leaf x corruption; x all 8 fail_on_* combinations x both XML handlers (and DictDecoder/JsonParser for unknown keys / bad "
    "values). Non-trivial = the faulted document is well-formed and the expectation was definite; distinct = distinct (faulted "
    "document or dictionary, options, backend)."
)
ASSUMPTIONS = [
    "unknown content is only injected into elements bound to classes without a wildcard field (elements) / attributes map (attributes) in their inheritance chain and not nil",
    "typed leaves are corrupted only when no declared type accepts the corrupt text (no str/object/QName member)",
    "attributes on simple-typed (leaf) elements are not judged: xsdata never inspects them",
    "dictionary decoder: unknown keys are not injected below compound fields (objects located by their keys: documented class-locator limitation)",
]
MIN_DISTINCT = {"quick": 20000, "thorough": 400000}
TIME = {"quick": 45, "thorough": 600}
OPTS = list(itertools.product([False, True], repeat=3))  # (unknown_properties, unknown_attributes, converter_warnings)
CORRUPTIBLE = {"int", "float", "Decimal", "bool", "XmlDate", "XmlTime", "XmlDateTime", "XmlDuration", "XmlPeriod", "bytes"}


def parser_for(handler, opts, context=None):
    from xsdata.formats.dataclass.context import XmlContext
    from xsdata.formats.dataclass.parsers import XmlParser
    from xsdata.formats.dataclass.parsers.config import ParserConfig

    pc = ParserConfig(fail_on_unknown_properties=opts[0], fail_on_unknown_attributes=opts[1], fail_on_converter_warnings=opts[2])
    return XmlParser(context=context or XmlContext(), config=pc, handler=bc.handler_cls(handler))


def run_parse(data, clazz, handler, opts):
    from xsdata.exceptions import ConverterWarning, ParserError

    with warnings.catch_warnings(record=True) as rec:
        warnings.simplefilter("always")
        try:
            obj = parser_for(handler, opts).from_bytes(data, clazz)
            out = ("ok", obj)
        except ParserError as e:
            out = ("ParserError", e)
        except Exception as e:  # noqa: BLE001
            out = ("other", e)
    nconv = sum(1 for r in rec if issubclass(r.category, ConverterWarning))
    return out, nconv


def class_has(model, cname, xml_kind):
    c = model.cls(cname)
    return any(f.xml == xml_kind for _, f in ir.chain_fields(model, c))


def subtree(kind, salt, known_names):
    u = f"unk{salt}"
    if kind == "empty":
        return rewrite.E(None, u)
    e = rewrite.E(None, u)
    if kind == "text":
        e.items = ["some text"]
    elif kind == "deep":
        k1, k2 = rewrite.E(None, "d1"), rewrite.E(None, "d2")
        k2.items = ["x"]
        k1.items = [k2]
        e.items = [k1, rewrite.E(None, "d3")]
    elif kind == "known-names":
        for n in known_names[:3]:
            ns, local = rewrite.split(n)
            k = rewrite.E(ns, local)
            k.items = ["1"]
            e.items.append(k)
    elif kind == "foreign":
        e = rewrite.E(f"urn:vf:{salt}:foreign", u)
        e.attrs.append((None, "a", "1"))
        e.items = [rewrite.E(f"urn:vf:{salt}:foreign", "in")]
    elif kind == "mixed":
        e.items = ["lead", rewrite.E(None, "m"), "mid", rewrite.E(None, "m"), "end"]
    return e


SHAPES = ["empty", "text", "deep", "known-names", "foreign", "mixed"]
ATTR_KINDS = ["unqualified", "foreign", "xsi", "xml"]


def all_elements(e):
    yield e
    for x in e.items:
        if isinstance(x, rewrite.E):
            yield from all_elements(x)


def emit(root, rng):
    return rewrite.emit_doc(root, rewrite.plain_opts(rng), declaration=False)


def check_xml(ctx, model, style, loaded, obj, cfg, seed, exhaustive_positions=True):
    rng = random.Random(seed)
    xml = bc.render(loaded, obj, cfg, "lxml")
    w0 = bc.witness(model, style, obj, cfg, seed=seed, fn="xml")
    try:
        root = rewrite.load_with_scopes(xml.encode("utf-8"))
        exp = ir.Ref(loaded, ignore_default_attributes=cfg.get("ignore_default_attributes", False)).root(obj)
        rewrite.mark_leaves(root, exp)
    except ir.Unsupported as e:
        ctx.drop(f"reference model does not cover: {e}")
        return
    clazz = type(obj)
    clean = {}
    for h in bc.HANDLERS:
        (st, val), _ = run_parse(xml.encode("utf-8"), clazz, h, (True, True, True))
        if st != "ok":
            ctx.drop("clean document does not parse strictly - C01's business")
            return
        clean[h] = val
    # the harness-side emitter must reproduce the clean document before any fault is trusted
    base = emit(root, rng)
    for h in bc.HANDLERS:
        (st, val), _ = run_parse(base, clazz, h, (True, True, True))
        if st != "ok" or deep_eq(clean[h], val):
            ctx.drop("harness emitter does not reproduce the clean document")
            ctx.extra["emitter_failures"] = ctx.extra.get("emitter_failures", 0) + 1
            return
    salt = model.salt
    known = sorted({rewrite_name(x) for x in all_elements(root)})
    elements = list(all_elements(root))
    class_bound = [e for e in elements if e.info.get("cls") and not e.info.get("nil")]

    # ---- unknown elements: every child position x shapes; the wrapper element of a list field is part of its
    # parent's content model, an element it does not declare is as unknown there as directly under the parent
    parent_cls = {}
    parent_el = {}
    for e in class_bound:
        for x in e.items:
            if isinstance(x, rewrite.E) and x.info.get("wrapper"):
                parent_cls[id(x)] = e.info["cls"]
                parent_el[id(x)] = e
    wrappers = [e for e in elements if id(e) in parent_cls]
    for e in class_bound + wrappers:
        owner = e.info.get("cls") or parent_cls[id(e)]
        if class_has(model, owner, "Wildcard"):
            ctx.drop("class has a wildcard: nothing is unknown there")
            continue
        kid_positions = [i for i in range(len(e.items) + 1)]
        # positions between items; text items of a class-bound element are whitespace/absent (or its Text field)
        if id(e) in parent_cls:
            ctx.feature("fault:unknown-element-inside-wrapper")
        elif class_has(model, owner, "Text") or any(isinstance(x, str) and x.strip() for x in e.items):
            continue  # simple content class: child elements are structural errors, not unknown properties
        if not exhaustive_positions:
            kid_positions = rng.sample(kid_positions, min(2, len(kid_positions)))
        shapes = SHAPES if exhaustive_positions else rng.sample(SHAPES, 2)
        for pos in kid_positions:
            for shape in shapes:
                sub = subtree(shape, salt, known)
                e.items.insert(pos, sub)
                try:
                    data = emit(root, rng)
                finally:
                    del e.items[pos]
                ctx.feature(f"fault:unknown-element/{shape}")
                judge_unknown(ctx, data, clazz, clean, "element", w0, f"{shape}@{pos}")
            if id(e) in parent_el:
                # inside a wrapper, an element named like a field its parent knows *outside* the wrapper (and carrying a copy of a
                # wrapper item below it) is unknown too; the real sibling after the wrapper must still be read (seeded change C10-r4-1)
                own = {(x.ns, x.local) for x in e.items if isinstance(x, rewrite.E)}
                sibs = [x for x in parent_el[id(e)].items if isinstance(x, rewrite.E) and x is not e and (x.ns, x.local) not in own and not x.info.get("wrapper")]
                for sib in sibs[:2]:
                    sub = rewrite.E(sib.ns, sib.local)
                    deep = rewrite.E(None, "deep")
                    for o in list(own)[:1]:
                        k = rewrite.E(*o)
                        k.items = ["9"]
                        deep.items.append(k)
                    sub.items = ["eve", deep]
                    e.items.insert(pos, sub)
                    try:
                        data = emit(root, rng)
                    finally:
                        del e.items[pos]
                    ctx.feature("fault:unknown-element-inside-wrapper/named-like-outer-sibling")
                    judge_unknown(ctx, data, clazz, clean, "element", w0, f"outer-sibling@{pos}")

    # ---- unknown attributes
    for e in class_bound:
        if class_has(model, e.info["cls"], "Attributes"):
            ctx.drop("class has an attributes map: nothing is unknown there")
            continue
        for kind in ATTR_KINDS:
            attr = {"unqualified": (None, f"unk{salt}", "v"), "foreign": (f"urn:vf:{salt}:foreign", "fa", "v"), "xsi": (XSI, rng.choice(["schemaLocation", "foo", "noNamespaceSchemaLocation"]), "urn:x x.xsd"),
                    "xml": (xmlkit.XMLNS, "lang", "en")}[kind]
            if any((a[0], a[1]) == (attr[0], attr[1]) for a in e.attrs):
                continue
            e.attrs.append(attr)
            try:
                data = emit(root, rng)
            finally:
                e.attrs.pop()
            ctx.feature(f"fault:unknown-attribute/{kind}")
            judge_unknown(ctx, data, clazz, clean, "attribute-xsi" if kind == "xsi" else "attribute", w0, kind)

    # ---- unconvertible values
    for e in elements:
        lt = e.info.get("leaf_types")
        if lt and not e.info.get("leaf_any") and corruptible(model, lt) and len(e.items) == 1 and isinstance(e.items[0], str):
            old = e.items[0]
            bad = rng.choice(["zz-bad", "12x", "--", "tru"])
            e.items[0] = bad
            try:
                data = emit(root, rng)
            finally:
                e.items[0] = old
            ctx.feature("fault:bad-value/element")
            judge_bad_value(ctx, data, clazz, clean, bad, w0)
        for i, (ans, al, v) in enumerate(list(e.attrs)):
            at = e.info.get("attr_types", {}).get((ans, al))
            if at and corruptible(model, at) and e.info.get("cls"):
                bad = rng.choice(["zz-bad", "12x"] + ([""] if not e.info.get("attr_tokens", {}).get((ans, al)) and "bytes" not in [n for _, n in at] else []))
                e.attrs[i] = (ans, al, bad)
                try:
                    data = emit(root, rng)
                finally:
                    e.attrs[i] = (ans, al, v)
                ctx.feature("fault:bad-value/attribute")
                judge_bad_value(ctx, data, clazz, clean, bad, w0)


def rewrite_name(e):
    return f"{{{e.ns}}}{e.local}" if e.ns else e.local


def corruptible(model, types):
    for kind, name in types:
        if kind == "prim":
            if name not in CORRUPTIBLE:
                return False
        elif kind == "enum":
            if model.enum(name).base in ("str", "QName"):
                # a str enum never accepts the corrupt text either, but keep to clearly typed cases
                return model.enum(name).base == "str"
        else:
            return False
    return True


def judge_unknown(ctx, data, clazz, clean, what, w0, label):
    try:
        xmlkit.parse_strict(data)
    except Exception:  # noqa: BLE001
        ctx.drop("harness produced a document libxml2 rejects")
        return
    w = dict(w0)
    w["faulted"] = data.decode("utf-8")
    w["fault"] = f"unknown-{what}:{label}"
    for handler in bc.HANDLERS:
        for opts in OPTS:
            ctx.case(data, opts, handler)
            (st, val), nconv = run_parse(data, clazz, handler, opts)
            if what == "element":
                must_fail = opts[0]
            elif what == "attribute":
                must_fail = opts[1]
            else:
                must_fail = False  # xsi attributes are always tolerated
            tag = f"{what}/props={opts[0]},attrs={opts[1]},conv={opts[2]}"
            if st == "other":
                ctx.violation(f"unknown-{what}/wrong-exception/{bc.short_exc(val)}", f"{type(val).__name__}: {val}\n{tag}\n{data[:1200]!r}", w)
            elif must_fail and st != "ParserError":
                ctx.violation(f"unknown-{what}/not-rejected/{handler}", f"strict option set but the parse succeeded: {tag}\n{data[:1200]!r}", w)
            elif not must_fail and st == "ParserError":
                ctx.violation(f"unknown-{what}/rejected-although-lenient/{handler}/{bc.short_exc(val)}", f"{val}\n{tag}\n{data[:1200]!r}", w)
            elif not must_fail:
                d = deep_eq(clean[handler], val)
                if d:
                    ctx.violation(f"unknown-{what}/changes-the-object/{handler}/{label.split('@')[0]}", f"{d}\n{tag}\n{data[:1200]!r}", w)
                elif nconv:
                    ctx.violation(f"unknown-{what}/spurious-converter-warning/{handler}", f"{tag}\n{data[:800]!r}", w)


def judge_bad_value(ctx, data, clazz, clean, bad, w0):
    w = dict(w0)
    w["faulted"] = data.decode("utf-8")
    w["fault"] = f"bad-value:{bad}"
    for handler in bc.HANDLERS:
        for opts in OPTS:
            ctx.case(data, opts, handler)
            (st, val), nconv = run_parse(data, clazz, handler, opts)
            tag = f"props={opts[0]},attrs={opts[1]},conv={opts[2]}"
            if st == "other":
                ctx.violation(f"bad-value/wrong-exception/{bc.short_exc(val)}", f"{type(val).__name__}: {val}\n{tag}\n{data[:1200]!r}", w)
            elif opts[2]:
                if st != "ParserError":
                    ctx.violation(f"bad-value/not-rejected/{handler}", f"fail_on_converter_warnings=True but the parse succeeded\n{tag}\n{data[:1200]!r}", w)
            else:
                if st == "ParserError":
                    ctx.violation(f"bad-value/rejected-although-lenient/{handler}/{bc.short_exc(val)}", f"{val}\n{tag}\n{data[:1200]!r}", w)
                    continue
                if nconv < 1:
                    ctx.violation(f"bad-value/no-converter-warning/{handler}", f"{tag}\n{data[:1200]!r}", w)
                diffs = deep_diffs(clean[handler], val)
                if len(diffs) != 1 or not kept_as_given(diffs[0][2], bad):
                    ctx.violation(f"bad-value/not-kept-as-given/{handler}", f"diffs={[(p, repr(a)[:60], repr(b)[:60]) for p, a, b in diffs[:4]]}\n{tag}\n{data[:1200]!r}", w)


def kept_as_given(v, bad):
    if v == bad:
        return True
    if isinstance(v, (list, tuple)) and len(v) == 1 and v[0] == bad:
        return True
    return False


# ----------------------------------------------------------------------------- dictionary / JSON decoder
def check_dict(ctx, model, style, loaded, obj, seed):
    from xsdata.exceptions import ConverterWarning, ParserError
    from xsdata.formats.dataclass.context import XmlContext
    from xsdata.formats.dataclass.parsers import DictDecoder, JsonParser
    from xsdata.formats.dataclass.parsers.config import ParserConfig
    from xsdata.formats.dataclass.serializers import DictEncoder

    rng = random.Random(seed)
    if any(c.base and not c.fields for c in model.classes):
        # a derived class that adds no member has the same keys as its base: the decoder cannot tell them apart and which one
        # wins the tie is not even stable between two calls (documented ambiguity of the class locator, json_parsing.md)
        ctx.drop("JSON: a derived class without members of its own is indistinguishable from its base")
        return
    w0 = bc.witness(model, style, obj, None, seed=seed, fn="dict")
    try:
        enc = DictEncoder(context=XmlContext()).encode(obj)
        json.dumps(enc)
    except Exception:  # noqa: BLE001
        ctx.drop("encode failed - C04's business")
        return
    clazz = type(obj)

    def decode(data, opts, via_json):
        pc = ParserConfig(fail_on_unknown_properties=opts[0], fail_on_unknown_attributes=opts[1], fail_on_converter_warnings=opts[2])
        with warnings.catch_warnings(record=True) as rec:
            warnings.simplefilter("always")
            try:
                if via_json:
                    out = ("ok", JsonParser(config=pc, context=XmlContext()).from_string(json.dumps(data), clazz))
                else:
                    out = ("ok", DictDecoder(config=pc, context=XmlContext()).decode(data, clazz))
            except ParserError as e:
                out = ("ParserError", e)
            except Exception as e:  # noqa: BLE001
                out = ("other", e)
        return out, sum(1 for r in rec if issubclass(r.category, ConverterWarning))

    (st, clean), _ = decode(enc, (True, True, True), False)
    if st != "ok" or deep_eq(obj, clean):
        ctx.drop("clean dictionary does not decode strictly - C04's business")
        return
    # every dict node that is a model instance (not generic): inject an unknown key
    nodes = []
    leaves = []  # (dict node, key, field): primitive single values of clearly typed fields
    subclassed = {c.base for c in model.classes if c.base}

    def located_by_keys(f):
        """The decoder has to pick the class of the nested object from its keys (compound field, union of
        classes, declared class with subclasses): documented not to work with unknown properties
        (json_parsing.md, class locator warning) - nothing is injected into that object itself, but its
        own nested objects are ordinary again."""
        classes = [t.name for t in f.types if t.kind == "class"]
        return f.xml == "Elements" or len(classes) > 1 or any(n in subclassed for n in classes)

    def walk(d, o, located=False, under=False):
        # under: some ancestor is located by its keys; the decoder tries the candidate classes with
        # fail_on_converter_warnings=True, so an unconvertible value anywhere below such an object rejects the document
        # even in lenient mode (open known finding C10/unconvertible-value-below-key-located-object, probe below)
        under = under or located
        if isinstance(d, dict) and type(o).__name__ not in ("AnyElement", "DerivedElement", "dict") and hasattr(o, "__dataclass_fields__"):
            if not located:
                nodes.append(d)
            c = model.cls(type(o).__name__)
            for _, f in ir.chain_fields(model, c):
                if f.xml == "Elements":
                    continue
                key = f.wrapper or (f.meta_name if f.meta_name is not None else ir.namegen(c.name_gen if c.has_meta else None, f.name))
                v = getattr(o, f.name)
                dv = d.get(key)
                if f.wrapper and isinstance(dv, dict):
                    if not located:
                        nodes.append(dv)  # the wrapper object is part of its parent: an undeclared key in it is as unknown as beside it
                        ctx.feature("fault:unknown-key-inside-wrapper-object")
                    dv = next(iter(dv.values()), None)
                if isinstance(v, (list, tuple)) and isinstance(dv, (list, tuple)):
                    for x, y in zip(dv, v):
                        walk(x, y, located_by_keys(f), under)
                else:
                    if not under and not f.wrapper and not f.tokens and key in d and isinstance(dv, (int, float, str, bool)) and f.xml in ("Element", "Attribute") and corruptible(model, [(t.kind, t.name) for t in f.types]):
                        leaves.append((d, key, f))
                    walk(dv, v, located_by_keys(f), under)

    walk(enc, obj)
    for node in nodes:
        for unk_val in ({"deep": {"x": [1, 2]}}, "text", [1, 2], None):
            key = f"unk{model.salt}"
            # the position of the unknown key among the known ones is part of the input: first, between, last
            saved = list(node.items())
            at = rng.choice([0, 0, len(saved), rng.randrange(len(saved) + 1)])
            node.clear()
            node.update(saved[:at] + [(key, unk_val)] + saved[at:])
            try:
                data = copy.deepcopy(enc)
            finally:
                node.clear()
                node.update(saved)
            ctx.feature(f"fault:unknown-key/{'first' if at == 0 else 'last' if at == len(saved) else 'between'}")
            ctx.feature("fault:unknown-key")
            w = dict(w0)
            w["faulted"] = json.dumps(data)[:4000]
            for via_json in (False, True):
                for opts in OPTS:
                    ctx.case(w["faulted"], opts, via_json)
                    (st, val), nconv = decode(data, opts, via_json)
                    if st == "other":
                        ctx.violation(f"unknown-key/wrong-exception/{bc.short_exc(val)}", f"{type(val).__name__}: {val}\n{w['faulted'][:800]}", w)
                    elif opts[0] and st != "ParserError":
                        ctx.violation("unknown-key/not-rejected", f"fail_on_unknown_properties=True but decode succeeded\n{w['faulted'][:800]}", w)
                    elif not opts[0]:
                        if st != "ok":
                            ctx.violation(f"unknown-key/rejected-although-lenient/{bc.short_exc(val)}", f"{val}\n{w['faulted'][:800]}", w)
                        elif deep_eq(clean, val):
                            ctx.violation("unknown-key/changes-the-object", f"{deep_eq(clean, val)}\n{w['faulted'][:800]}", w)


    # ---- unconvertible values in the dictionary
    for node, key, f in leaves[:6]:
        old = node[key]
        bad = rng.choice(["zz-bad", "12x"] + ([""] if all(t.name != "bytes" for t in f.types) else []))  # '' is a valid (empty) binary value
        node[key] = bad
        try:
            data = copy.deepcopy(enc)
        finally:
            node[key] = old
        ctx.feature("fault:bad-value/dict")
        w = dict(w0)
        w["faulted"] = json.dumps(data)[:4000]
        w["fault"] = f"bad-value:{bad!r} at {key}"
        for via_json in (False, True):
            for opts in OPTS:
                ctx.case(w["faulted"], opts, via_json, "bad-value")
                (st, val), nconv = decode(data, opts, via_json)
                tag = f"props={opts[0]},attrs={opts[1]},conv={opts[2]},json={via_json}"
                if st == "other":
                    ctx.violation(f"bad-value-dict/wrong-exception/{bc.short_exc(val)}", f"{type(val).__name__}: {val}\n{tag}\n{w['faulted'][:800]}", w)
                elif opts[2]:
                    if st != "ParserError":
                        ctx.violation("bad-value-dict/not-rejected", f"fail_on_converter_warnings=True but decode succeeded\n{tag}\n{w['faulted'][:800]}", w)
                elif st == "ParserError":
                    ctx.violation(f"bad-value-dict/rejected-although-lenient/{bc.short_exc(val)}", f"{val}\n{tag}\n{w['faulted'][:800]}", w)
                else:
                    if nconv < 1:
                        ctx.violation("bad-value-dict/no-converter-warning", f"{tag}\n{w['faulted'][:800]}", w)
                    diffs = deep_diffs(clean, val)
                    if len(diffs) != 1 or not kept_as_given(diffs[0][2], bad):
                        ctx.violation("bad-value-dict/not-kept-as-given", f"diffs={[(p, repr(a)[:60], repr(b)[:60]) for p, a, b in diffs[:4]]}\n{tag}\n{w['faulted'][:800]}", w)


def probe_union_field_bad_value():
    """Known finding: DictDecoder.bind_best_dataclass scores the candidate classes of a union-typed field with
    fail_on_converter_warnings=True; a value that cannot be converted anywhere below such an object makes every
    candidate fail and the document is rejected although conversion warnings are configured not to fail."""
    from xsdata.exceptions import ParserError
    from xsdata.formats.dataclass.context import XmlContext
    from xsdata.formats.dataclass.parsers import DictDecoder
    from xsdata.formats.dataclass.parsers.config import ParserConfig

    from vf.props.c10_models import Root

    cfg = ParserConfig(fail_on_converter_warnings=False)

    def run(doc):
        with warnings.catch_warnings(record=True) as rec:
            warnings.simplefilter("always")
            try:
                return "ok", DictDecoder(config=cfg, context=XmlContext()).decode(doc, Root), len(rec)
            except ParserError as e:
                return "ParserError", e, len(rec)

    bad = run({"u": {"x": {"n": "zz-bad"}, "a": "s"}})
    good = run({"p": {"x": {"n": "zz-bad"}, "a": "s"}})
    return bad[0] == "ParserError" and good[0] == "ok" and good[2] >= 1


def check_xsi_attributes_on_union_elements(ctx):
    """Directed (vf/props/union_models.py): xsi attributes are always tolerated, also on elements typed by a union of a class
    with primitives - the parsed object is the same with and without them, in every option combination."""
    from vf.props import union_models as U

    XSI_DECL = f'xmlns:xsi="{XSI}"'
    base = f'<holder xmlns="{U.NS}" {XSI_DECL}><m{{a}}>5</m><tail>t</tail></holder>'
    base2 = f'<holder xmlns="{U.NS}" {XSI_DECL}><m{{a}}><x>4</x></m><us{{a}}><y>s</y></us></holder>'
    for doc in (base, base2):
        for attr in (' xsi:schemaLocation="urn:a a.xsd"', ' xsi:noNamespaceSchemaLocation="a.xsd"', ' xsi:nil="false"', ' xsi:foo="1"'):
            for handler in bc.HANDLERS:
                for opts in OPTS:
                    ctx.case("xsi-on-union", doc, attr, handler, opts)
                    ctx.evals()
                    ctx.feature("fault:xsi-attribute-on-union-element")
                    (st0, v0), _ = run_parse(doc.format(a="").encode(), U.Holder, handler, opts)
                    (st1, v1), _ = run_parse(doc.format(a=attr).encode(), U.Holder, handler, opts)
                    if st0 != "ok":
                        ctx.inconc(f"directed union document does not parse: {v0}")
                        continue
                    if st1 != "ok" or deep_eq(v0, v1):
                        ctx.violation(f"xsi-attribute/changes-the-object/{handler}", f"{doc.format(a=attr)}\nwithout: {v0!r}\nwith: {v1!r}", {"fn": "xsi-on-union"})


def check_unknown_inside_class_union(ctx):
    """Directed (vf/props/c10_models.py, Root.u: Union[A, B]): an unknown element, at every child position of the element bound to
    a union of classes, is skipped when fail_on_unknown_properties is off and a ParserError when it is on (seeded change
    C10-r4-2: the configuration used to replay the union candidates forced strictness)."""
    from vf.props.c10_models import Root

    bodies = [["<x><n>1</n></x>", "<b>s</b>"], ["<x><n>2</n></x>", "<a>s</a>"], ["<b>only</b>"]]
    unknowns = ["<unk/>", "<unk>t</unk>", "<unk a='1'><a>x</a><n>7</n></unk>", "<zz xmlns='urn:vf:foreign'><in/></zz>"]
    for body in bodies:
        clean_doc = "<Root><u>" + "".join(body) + "</u><p><a>z</a></p></Root>"
        for pos in range(len(body) + 1):
            for unk in unknowns:
                doc = "<Root><u>" + "".join(body[:pos]) + unk + "".join(body[pos:]) + "</u><p><a>z</a></p></Root>"
                for handler in bc.HANDLERS:
                    for opts in OPTS:
                        ctx.case("unknown-in-class-union", doc, handler, opts)
                        ctx.evals()
                        ctx.feature("fault:unknown-element-inside-class-union")
                        (st0, v0), _ = run_parse(clean_doc.encode(), Root, handler, opts)
                        (st1, v1), _ = run_parse(doc.encode(), Root, handler, opts)
                        w = {"fn": "unknown-in-class-union"}
                        if st0 != "ok" or v0.u is None:
                            ctx.inconc(f"directed union document does not parse: {v0}")
                        elif opts[0] and st1 != "ParserError":
                            ctx.violation(f"unknown-element/class-union/strict-accepts/{handler}", f"{doc}\nopts={opts}\n{st1}: {v1!r}", w)
                        elif not opts[0] and (st1 != "ok" or deep_eq(v0, v1)):
                            ctx.violation(f"unknown-element/class-union/lenient-{'differs' if st1 == 'ok' else 'raises'}/{handler}", f"{doc}\nopts={opts}\nclean: {v0!r}\nfaulted: {st1}: {v1!r}", w)


def replay(witness, ctx):
    if witness.get("fn") == "unknown-in-class-union":
        check_unknown_inside_class_union(ctx)
        return
    if witness.get("fn") == "xsi-on-union":
        check_xsi_attributes_on_union_elements(ctx)
        return
    model, loaded, obj = bc.from_witness(witness)
    try:
        if witness.get("fn") == "dict":
            check_dict(ctx, model, witness["style"], loaded, obj, witness["seed"])
        else:
            check_xml(ctx, model, witness["style"], loaded, obj, witness["cfg"], witness["seed"])
    finally:
        loaded.unload()


def run_shard(ctx):
    rng = ctx.rng
    if ctx.shard == 0:
        ctx.evals()
        try:
            if probe_union_field_bad_value():
                ctx.known_finding("C10/unconvertible-value-below-key-located-object")
        except Exception as e:  # noqa: BLE001
            ctx.inconc(f"probe failed to run: {type(e).__name__}: {e}")
        check_xsi_attributes_on_union_elements(ctx)
        check_unknown_inside_class_union(ctx)
    n_models = ctx.per_shard(ctx.pick(260, 6000))
    min_d = MIN_DISTINCT[ctx.tier] // ctx.nshards + 1
    k = 0
    while k < n_models and (ctx.time_left() > 0 or len(ctx.fingerprints) < min_d):
        k += 1
        try:
            case = bc.make_case(ctx, max_classes=3, max_fields=4, n_objs=1, max_depth=2)
        except Exception as e:  # noqa: BLE001
            ctx.inconc(f"model generation failed: {e}")
            continue
        try:
            ctx.feature(*bc.model_features(case.model))
            for obj in case.objs:
                cfg = {"indent": None, "xml_declaration": False, "ignore_default_attributes": False, "ns_map": None}
                check_xml(ctx, case.model, case.style, case.loaded, obj, cfg, rng.getrandbits(40))
            if k % 3 == 0:
                try:
                    jcase = bc.make_case(ctx, features=ir.Gen.ALL - ({"object"} if k % 2 else {"inheritance", "multi_class_choice", "object"}), max_classes=4, max_fields=4, n_objs=1, max_depth=3, json_mode=True)
                except Exception:  # noqa: BLE001
                    continue
                try:
                    check_dict(ctx, jcase.model, jcase.style, jcase.loaded, jcase.objs[0], rng.getrandbits(40))
                finally:
                    jcase.close()
        finally:
            case.close()
    ctx.sample({"fault": "unknown element <unk> with a deep subtree at child position 1 of a class-bound element", "options": "all 8 fail_on_* combinations", "expects": "ParserError iff fail_on_unknown_properties else object == clean parse"})
