"""C04 — JSON and dictionary round-trip.

Monitor shape: reference oracle at the API boundary. DictEncoder/DictDecoder and
JsonSerializer/JsonParser are driven with generated models/instances for the default and the
None-filtering dict factory, single objects and lists of objects; the oracle is type-exact deep
equality plus an independent JSON-nativeness judge (recursive type check + the stdlib json module
dumping and re-loading the encoded form).
"""

from __future__ import annotations

import json
import math

from vf import bindcase as bc
from vf import ir
from vf.xmlkit import deep_eq

ID = "C04"
LEVEL = "exploration"
RULE = (
    "case = (generated model, instance or list of instances, dict factory, route dict|json-str|json-bytes, indent); models from "
    "the shared generator without anyType primitive fields. Judges: encoded form is JSON-native (recursive type check, "
    "json.dumps succeeds), decode(encode(x)) == x, decode(json.loads(json.dumps(encode(x)))) == x, JsonParser(JsonSerializer(x)) == x, "
    "absent keys under FILTER_NONE decode to the defaults. Non-trivial = model has >= 2 fields; distinct = distinct (model "
    "structure, instance, factory, route)."
)
ASSUMPTIONS = [
    "models without untyped (anyType) primitive fields; compound choices and unions JSON-distinguishable (documented warning on ambiguous compound fields)",
    "local names unique per class (JSON keys carry no namespace)",
    "no inheritance between generated classes: JSON has no xsi:type and the decoder's best-match scoring ties between a class and a subclass whose extra fields are defaulted",
]
MIN_DISTINCT = {"quick": 30000, "thorough": 500000}
TIME = {"quick": 40, "thorough": 500}
FEATURES = ir.Gen.ALL - {"inheritance", "multi_class_choice"}  # JSON carries no xsi:type: a class and its subclasses with nested key sets tie in the best-match scoring


def native_problem(x, path="$"):
    if x is None or isinstance(x, (bool, int, str)):
        return None
    if isinstance(x, float):
        return None
    if isinstance(x, (list, tuple)):
        for i, v in enumerate(x):
            p = native_problem(v, f"{path}[{i}]")
            if p:
                return p
        return None
    if isinstance(x, dict):
        for k, v in x.items():
            if not isinstance(k, str):
                return f"{path}: non-string key {k!r}"
            p = native_problem(v, f"{path}.{k}")
            if p:
                return p
        return None
    return f"{path}: {type(x).__name__} value {x!r} is not JSON-native"


def fill_defaults(o):
    import copy
    import dataclasses

    if isinstance(o, list):
        return [fill_defaults(x) for x in o]
    if isinstance(o, tuple) and not hasattr(o, "_fields"):
        return tuple(fill_defaults(x) for x in o)
    if dataclasses.is_dataclass(o) and not isinstance(o, type):
        kw = {}
        for f in dataclasses.fields(o):
            v = getattr(o, f.name)
            if v is None and f.default is not dataclasses.MISSING and f.default is not None:
                v = copy.deepcopy(f.default)
            elif v is None and f.default_factory is not dataclasses.MISSING:
                v = f.default_factory()
            else:
                v = fill_defaults(v)
            if f.init:
                kw[f.name] = v
        try:
            return type(o)(**kw)
        except Exception:  # noqa: BLE001
            return o
    return o


def check(ctx, model, style, loaded, obj, factory, indent, as_list=False):
    from typing import List

    from xsdata.exceptions import ConverterWarning
    from xsdata.formats.dataclass.context import XmlContext
    from xsdata.formats.dataclass.parsers import DictDecoder, JsonParser
    from xsdata.formats.dataclass.parsers.config import ParserConfig
    from xsdata.formats.dataclass.serializers import DictEncoder, JsonSerializer
    from xsdata.formats.dataclass.serializers.config import SerializerConfig
    from xsdata.formats.dataclass.serializers.dict import DictFactory
    import warnings

    dict_factory = DictFactory.FILTER_NONE if factory == "filter_none" else dict
    value = [obj, obj] if as_list else obj
    clazz = List[type(obj)] if as_list else type(obj)
    w = bc.witness(model, style, obj, None, factory=factory, indent=indent, as_list=as_list, fn="check")
    pc = ParserConfig(fail_on_unknown_properties=True, fail_on_unknown_attributes=True, fail_on_converter_warnings=True)
    nontrivial = sum(len(c.fields) for c in model.classes) >= 2
    sfp, ofp = bc.structure_fp(model), bc.obj_fp(model, obj)

    # under the None-filtering factory a None is an absent key, and an absent key decodes to the field default
    expected = fill_defaults(value) if factory == "filter_none" else value

    def same(back, route):
        d = deep_eq(expected, back)
        if d:
            ctx.violation(f"roundtrip-mismatch/{route}/{factory}/{bc.diff_key(model, obj, d.replace('$[0]', '$').replace('$[1]', '$'))}", f"{d}\nencoded: {str(enc)[:1200]}", w)

    with warnings.catch_warnings():
        warnings.simplefilter("error", ConverterWarning)
        # dict route
        ctx.case(sfp, ofp, factory, "dict", as_list, nontrivial=nontrivial)
        try:
            enc = DictEncoder(dict_factory=dict_factory, context=XmlContext()).encode(value)
        except Exception as e:  # noqa: BLE001
            ctx.violation(f"encode-raises/{factory}/{bc.short_exc(e)}", f"{type(e).__name__}: {e}", w)
            return
        p = native_problem(enc)
        if p:
            ctx.violation(f"not-json-native/{factory}/{p.split(':')[1].strip().split(' ')[0]}", p, w)
            return
        try:
            dumped = json.dumps(enc)
        except Exception as e:  # noqa: BLE001
            ctx.violation(f"json-dumps-fails/{factory}/{bc.short_exc(e)}", f"{e}", w)
            return
        try:
            same(DictDecoder(config=pc, context=XmlContext()).decode(enc, clazz), "dict")
        except Exception as e:  # noqa: BLE001
            ctx.violation(f"decode-raises/dict/{factory}/{bc.short_exc(e)}", f"{type(e).__name__}: {e}\nencoded: {str(enc)[:1200]}", w)
        ctx.case(sfp, ofp, factory, "dict-via-json", as_list, nontrivial=nontrivial)
        try:
            same(DictDecoder(config=pc, context=XmlContext()).decode(json.loads(dumped), clazz), "dict-via-json")
        except Exception as e:  # noqa: BLE001
            ctx.violation(f"decode-raises/dict-via-json/{factory}/{bc.short_exc(e)}", f"{type(e).__name__}: {e}\njson: {dumped[:1200]}", w)
        # json route
        for route in ("json-str", "json-bytes"):
            ctx.case(sfp, ofp, factory, route, indent, as_list, nontrivial=nontrivial)
            try:
                text = JsonSerializer(dict_factory=dict_factory, config=SerializerConfig(indent=indent), context=XmlContext()).render(value)
            except Exception as e:  # noqa: BLE001
                ctx.violation(f"render-raises/{factory}/{bc.short_exc(e)}", f"{type(e).__name__}: {e}", w)
                return
            try:
                if json.loads(text) != json.loads(dumped) and not has_nan(enc):
                    ctx.violation(f"json-text-differs-from-dict/{factory}", f"{text[:600]} vs {dumped[:600]}", w)
            except Exception as e:  # noqa: BLE001
                ctx.violation(f"json-text-invalid/{factory}/{bc.short_exc(e)}", f"{e}: {text[:600]}", w)
                return
            try:
                jp = JsonParser(config=pc, context=XmlContext())
                back = jp.from_string(text, clazz) if route == "json-str" else jp.from_bytes(text.encode("utf-8"), clazz)
                same(back, route)
            except Exception as e:  # noqa: BLE001
                ctx.violation(f"decode-raises/{route}/{factory}/{bc.short_exc(e)}", f"{type(e).__name__}: {e}\njson: {text[:1200]}", w)
    if len(ctx.samples) < 3 and nontrivial:
        ctx.sample({"model_source": loaded.source[-1000:], "instance": repr(obj)[:400], "factory": factory, "json": dumped[:600]})


def wrap_derived(obj, rng):
    """Copy of obj in which some dataclass values of compound fields are wrapped as
    DerivedElement(qname=<their choice>, value=v) without an xsi type - the documented way to say which
    choice a value belongs to. -> (copy, number of wrapped values)"""
    import copy
    import dataclasses

    from xsdata.formats.dataclass.context import XmlContext
    from xsdata.formats.dataclass.models.generics import DerivedElement

    xc = XmlContext()
    obj = copy.deepcopy(obj)
    n = [0]

    def generic(o):
        return type(o).__name__ in ("AnyElement", "DerivedElement")

    def visit(o):
        if not dataclasses.is_dataclass(o) or isinstance(o, type) or generic(o):
            return
        meta = xc.build(type(o))
        compound = {v.name: v for v in meta.choices}
        for f in dataclasses.fields(o):
            val = getattr(o, f.name)
            items = list(val) if isinstance(val, (list, tuple)) else [val]
            new = []
            for it in items:
                visit(it)
                var = compound.get(f.name)
                if var is not None and dataclasses.is_dataclass(it) and not generic(it) and rng.random() < 0.6:
                    ch = var.find_value_choice(it, True)
                    if ch is not None and ch.qname and not ch.is_wildcard:
                        it = DerivedElement(qname=ch.qname, value=it)
                        n[0] += 1
                new.append(it)
            if f.name in compound:
                object.__setattr__(o, f.name, type(val)(new) if isinstance(val, (list, tuple)) else new[0])

    visit(obj)
    return obj, n[0]


def has_nan(x):
    if isinstance(x, float):
        return math.isnan(x)
    if isinstance(x, (list, tuple)):
        return any(has_nan(v) for v in x)
    if isinstance(x, dict):
        return any(has_nan(v) for v in x.values())
    return False


def replay(witness, ctx):
    if witness.get("fn") == "hand":
        check_hand_models(ctx)
        return
    model, loaded, obj = bc.from_witness(witness)
    try:
        check(ctx, model, witness["style"], loaded, obj, witness["factory"], witness["indent"], witness.get("as_list", False))
    finally:
        loaded.unload()


def check_hand_models(ctx):
    """Unions of classes with the same keys and different field types (vf/props/c04_models.py)."""
    from xsdata.formats.dataclass.context import XmlContext
    from xsdata.formats.dataclass.parsers import DictDecoder, JsonParser
    from xsdata.formats.dataclass.serializers import DictEncoder, JsonSerializer
    from xsdata.formats.dataclass.serializers.dict import DictFactory

    from vf.props import c04_models as M

    for i, obj in enumerate(M.instances()):
        for factory in ("dict", "filter_none"):
            ff = DictFactory.FILTER_NONE if factory == "filter_none" else dict
            ctx.case("hand", i, factory, nontrivial=True)
            ctx.evals()
            ctx.feature("hand:union-of-classes-with-shared-keys")
            w = {"fn": "hand", "index": i, "factory": factory}
            try:
                enc = DictEncoder(dict_factory=ff, context=XmlContext()).encode(obj)
                back = DictDecoder(context=XmlContext()).decode(json.loads(json.dumps(enc)), type(obj))
                text = JsonSerializer(dict_factory=ff, context=XmlContext()).render(obj)
                back2 = JsonParser(context=XmlContext()).from_string(text, type(obj))
            except Exception as e:  # noqa: BLE001
                ctx.violation(f"hand-model-raises/{factory}/{bc.short_exc(e)}", f"{type(e).__name__}: {e}\n{obj!r}", w)
                continue
            for route, b in (("dict", back), ("json", back2)):
                d = deep_eq(obj, b)
                if d:
                    ctx.violation(f"roundtrip-mismatch/hand/{route}/{factory}", f"{d}\n{obj!r}\n-> {enc}\n-> {b!r}", w)


def run_shard(ctx):
    rng = ctx.rng
    if ctx.shard == 0:
        check_hand_models(ctx)
    n_models = ctx.per_shard(ctx.pick(12000, 250000))
    min_d = MIN_DISTINCT[ctx.tier] // ctx.nshards + 1
    k = 0
    while k < n_models and (ctx.time_left() > 0 or len(ctx.fingerprints) < min_d):
        k += 1
        try:
            case = bc.make_case(ctx, features=FEATURES, max_classes=4, max_fields=5, n_objs=2, json_mode=True)
        except Exception as e:  # noqa: BLE001
            ctx.inconc(f"model generation failed: {e}")
            continue
        try:
            ctx.feature(*bc.model_features(case.model))
            for obj in case.objs:
                factory = rng.choice(["dict", "filter_none"])
                ctx.feature(f"factory:{factory}")
                check(ctx, case.model, case.style, case.loaded, obj, factory, rng.choice([None, 2]), as_list=rng.random() < 0.25)
                if any(f.xml == "Elements" for c in case.model.classes for f in c.fields):
                    try:
                        obj2, n = wrap_derived(obj, rng)
                    except Exception as e:  # noqa: BLE001
                        ctx.inconc(f"wrap_derived failed: {type(e).__name__}: {e}")
                        continue
                    if n:
                        ctx.feature("compound-value-as-derived-element-without-type")
                        check(ctx, case.model, case.style, case.loaded, obj2, rng.choice(["dict", "filter_none"]), None)
        finally:
            case.close()
