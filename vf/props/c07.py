"""C07 — the code generator always produces importable, bindable code.

Monitor shape: independent validators per generated program. Every generation runs in its own
subprocess (vf/gen.py, stand-ins for click/jinja2/toposort/ruff on the child's path only); the
generated package is then imported in a *fresh* interpreter where every module is compiled and
imported, every dataclass (outer and inner) is turned into binding metadata (XmlContext.build /
build_recursive) and instantiated, every Enum member is touched, and an AST scan looks for duplicate
field names per class, duplicate class names per module and duplicate __all__ entries.
Acceptable failure: the generator's own error type (CodegenError) or ParserError for sources it
cannot parse; a watchdog/timeouts only ever make the run inconclusive.
"""

from __future__ import annotations

import json
import random

from vf import gen, samplegen, xsdgen
from vf import dtdgen, wsdlgen

ID = "C07"
LEVEL = "exploration"
RULE = (
    "case = (source set, option set). Source sets: generated XSD schema sets (1-2 files) over a hostile name alphabet (Python hard/soft "
    "keywords, None/True/False, dunders, names used by generated code, leading digits, punctuation, non-ASCII letters, names that "
    "collide after case conversion, hostile enumeration values), generated DTDs, generated WSDLs, and irregular XML/JSON sample sets; "
    "option sets sampled from 5 structure styles x compound x wrapper x unnest x eq/order/frozen/slots/unsafe_hash (legal combinations) "
    "x 5 docstring styles x 8 name cases per convention x relative imports x generic collections x max_line_length x ignore_patterns. "
    "Non-trivial = the generator produced at least one class; distinct = distinct (source bytes, option set)."
)
ASSUMPTIONS = [
    "template evaluation by the jinja2 stand-in (vf/shims, conformance self-test in ./check --setup); ruff is a no-op: formatting/lint fixes are not observed",
    "allowed failure types: xsdata.codegen.exceptions.CodegenError, xsdata.exceptions.ParserError (sources the generator cannot parse)",
    "illegal dataclass flag sets (order without eq, ...) are not generated",
]
MIN_DISTINCT = {"quick": 300, "thorough": 2500}
TIME = {"quick": 50, "thorough": 900}
SHARDS = {"quick": 14, "thorough": 14}

POST_SCRIPT = r'''
import ast, dataclasses, enum, importlib, sys, traceback
from xsdata.formats.dataclass.context import XmlContext

problems = []
stats = {"modules": 0, "classes": 0, "enums": 0, "fields": 0}
files = ARGS["files"]
for rel in files:
    if not rel.endswith(".py"):
        continue
    src = open(rel, encoding="utf-8").read()
    try:
        tree = ast.parse(src)
        compile(src, rel, "exec")
    except SyntaxError as e:
        problems.append(["syntax-error", rel, str(e)])
        continue
    # AST scan: duplicate class names per module/scope, duplicate fields per class, duplicate __all__
    def scan(body, where):
        names = {}
        for node in body:
            if isinstance(node, ast.ClassDef):
                names[node.name] = names.get(node.name, 0) + 1
                fields = {}
                for sub in node.body:
                    if isinstance(sub, ast.AnnAssign) and isinstance(sub.target, ast.Name):
                        fields[sub.target.id] = fields.get(sub.target.id, 0) + 1
                    if isinstance(sub, ast.Assign):
                        for t in sub.targets:
                            if isinstance(t, ast.Name):
                                fields[t.id] = fields.get(t.id, 0) + 1
                for k, v in fields.items():
                    if v > 1:
                        problems.append(["duplicate-field", f"{rel}:{where}{node.name}", k])
                scan(node.body, f"{where}{node.name}.")
            if isinstance(node, ast.Assign) and any(isinstance(t, ast.Name) and t.id == "__all__" for t in node.targets):
                try:
                    vals = [e.value for e in node.value.elts]
                    for v in set(vals):
                        if vals.count(v) > 1:
                            problems.append(["duplicate-__all__", rel, v])
                except Exception:
                    pass
        for k, v in names.items():
            if v > 1:
                problems.append(["duplicate-class", f"{rel}:{where}", k])
    scan(tree.body, "")

ctx = XmlContext()
seen = set()

def visit(cls, where):
    if id(cls) in seen:
        return
    seen.add(id(cls))
    if isinstance(cls, type) and issubclass(cls, enum.Enum):
        stats["enums"] += 1
        try:
            for m in cls:
                m.value, m.name, cls(m.value)
        except Exception as e:
            problems.append(["enum-unusable", where, f"{type(e).__name__}: {e}"])
        return
    if dataclasses.is_dataclass(cls):
        stats["classes"] += 1
        try:
            ctx.build_recursive(cls)
            meta = ctx.build(cls)
            stats["fields"] += len(list(meta.get_all_vars()))
        except Exception as e:
            problems.append(["metadata-fails", where, f"{type(e).__name__}: {e}"[:300]])
        try:
            kwargs = {}
            for f in dataclasses.fields(cls):
                if f.init and f.default is dataclasses.MISSING and f.default_factory is dataclasses.MISSING:
                    kwargs[f.name] = None
            cls(**kwargs)
        except Exception as e:
            problems.append(["instantiate-fails", where, f"{type(e).__name__}: {e}"[:300]])
        for k, v in vars(cls).items():
            if isinstance(v, type) and v.__module__ == cls.__module__ and k != "Meta":
                visit(v, f"{where}.{k}")

for modname in ARGS["modules"]:
    try:
        mod = importlib.import_module(modname)
        stats["modules"] += 1
    except BaseException as e:
        problems.append(["import-fails", modname, f"{type(e).__name__}: {e}"[:400]])
        continue
    for k, v in list(vars(mod).items()):
        if isinstance(v, type) and getattr(v, "__module__", None) == modname:
            visit(v, f"{modname}.{k}")
RESULT = {"problems": problems[:40], "stats": stats}
'''

NAME_CASES = ["originalCase", "pascalCase", "camelCase", "snakeCase", "screamingSnakeCase", "mixedCase", "mixedSnakeCase", "mixedPascalCase"]


def gen_options(rng):
    cfg = {}
    if rng.random() < 0.75:
        cfg["output.structure_style"] = rng.choice(["filenames", "namespaces", "clusters", "single-package", "namespace-clusters"])
    for k, p in (("output.compound_fields.enabled", 0.4), ("output.wrapper_fields", 0.3), ("output.unnest_classes", 0.3), ("output.relative_imports", 0.3),
                 ("output.generic_collections", 0.3), ("output.ignore_patterns", 0.2), ("output.format.slots", 0.25), ("output.format.frozen", 0.25), ("output.format.unsafe_hash", 0.15)):
        if rng.random() < p:
            cfg[k] = True
    eq = rng.random() < 0.85
    if not eq:
        cfg["output.format.eq"] = False
    elif rng.random() < 0.2:
        cfg["output.format.order"] = True
    if rng.random() < 0.2:
        cfg["output.format.repr"] = False
    if cfg.get("output.compound_fields.enabled") and rng.random() < 0.3:
        cfg["output.compound_fields.force_default_name"] = True
    if rng.random() < 0.6:
        cfg["output.docstring_style"] = rng.choice(["reStructuredText", "NumPy", "Google", "Accessible", "Blank"])
    if rng.random() < 0.5:
        cfg["output.max_line_length"] = rng.choice([50, 79, 120, 20, 30])
    for kind in ("class_name", "field_name", "constant_name", "module_name", "package_name"):
        if rng.random() < 0.35:
            # class and field conventions that can yield the same identifier for a field and its inner
            # class are the open known finding C07/field-name-equals-inner-class-name (dedicated probe)
            pool = {"class_name": ["pascalCase", "mixedPascalCase"], "field_name": ["snakeCase", "camelCase"]}.get(kind, NAME_CASES)
            cfg[f"conventions.{kind}.case"] = rng.choice(pool)
        if rng.random() < 0.1:
            cfg[f"conventions.{kind}.safe_prefix"] = rng.choice(["safe", "zz", "value"])  # a prefix equal to a name of the alphabet: known finding C07/custom-safe-prefix-collides-with-real-name (probe)
    if cfg.get("output.unnest_classes") and cfg.get("output.structure_style") in ("namespaces", "namespace-clusters"):
        # open known finding C02/no-namespace-class-in-namespaces-structure (probe in vf/props/c02.py): an unnested class of an
        # unqualified local element has no namespace and lands in <package>.py next to the package directory; depending on the
        # package naming convention that ends in CodegenError (circular dependencies) or in a package that cannot be imported
        cfg["output.structure_style"] = "filenames"
    return cfg


def gen_sources(rng, salt, kind):
    if kind == "xsd":
        ss = xsdgen.XsdGen(rng, salt, hostile=True, max_types=4).schema_set()
        return xsdgen.Renderer(ss).render(), ["main.xsd"], sorted(ss.features)
    if kind == "dtd":
        return dtdgen.hostile_dtd(rng, salt)
    if kind == "wsdl":
        return wsdlgen.hostile_wsdl(rng, salt)
    return samplegen.irregular_samples(rng, salt, kind)


def check(ctx, seed, kind):
    rng = random.Random(seed)
    salt = f"c7x{seed % 100000}"
    try:
        sources, entry, feats = gen_sources(rng, salt, kind)
    except Exception as e:  # noqa: BLE001
        ctx.inconc(f"source generator failed ({kind}): {type(e).__name__}: {e}")
        return
    cfg = gen_options(rng)
    w = {"fn": "check", "seed": seed, "kind": kind}
    ctx.feature(*[f"src:{f}" for f in (feats or []) if isinstance(f, str)][:40])
    ctx.feature(f"source:{kind}", *[f"opt:{k}={v}" for k, v in cfg.items() if not k.startswith("conventions")], *[f"conv:{k.split('.')[1]}" for k in cfg if k.startswith("conventions")])
    res = gen.generate(sources, entry=entry, config=cfg, route="api", hashseed=0, timeout=240, hooks=False)
    key_src = json.dumps({k: (v if isinstance(v, str) else v.decode("latin-1")) for k, v in sources.items()}, sort_keys=True)
    if res.status == "timeout":
        ctx.inconc(f"generation watchdog fired (seed {seed}, {kind})")
        return
    if res.status == "crash":
        ctx.violation(f"generator-crash/{kind}", f"interpreter died: rc={res.returncode}\n{res.stderr[-800:]}", w)
        return
    if res.status == "error":
        ctx.case(key_src, json.dumps(cfg, sort_keys=True), nontrivial=False)
        if res.is_a("xsdata.codegen.exceptions.CodegenError") or res.is_a("xsdata.exceptions.ParserError"):
            ctx.feature("outcome:clean-generator-error")
            return
        ctx.violation(f"internal-error/{kind}/{res.exc_type}/{norm(res.message)}", f"{res.exc_type}: {res.message}\n{(res.traceback or '')[-1500:]}\noptions={cfg}\n{first_source(sources)[:1500]}", w)
        return
    mods = gen.package_modules(res.files)
    run = gen.run_in_package(res.files, POST_SCRIPT, args={"files": sorted(res.files), "modules": mods}, timeout=180)
    if run.status == "timeout":
        ctx.inconc(f"post-check watchdog fired (seed {seed})")
        return
    if run.status != "ok":
        ctx.violation(f"post-check-failed/{kind}/{run.exc_type}", f"{run.exc_type}: {run.message}\n{run.stderr[-1200:]}", w)
        return
    stats = run.result["stats"]
    ctx.case(key_src, json.dumps(cfg, sort_keys=True), nontrivial=stats["classes"] + stats["enums"] > 0)
    ctx.extra["generated_classes"] = ctx.extra.get("generated_classes", 0) + stats["classes"]
    ctx.extra["generated_enums"] = ctx.extra.get("generated_enums", 0) + stats["enums"]
    ctx.extra["generated_modules"] = ctx.extra.get("generated_modules", 0) + stats["modules"]
    for kind_, where, msg in run.result["problems"]:
        ctx.violation(f"{kind_}/{kind}/{norm(msg)}", f"{kind_} at {where}: {msg}\noptions={cfg}\n{first_source(sources)[:1500]}", w)
    if len(ctx.samples) < 3 and stats["classes"]:
        pyfiles = [k for k in res.files if k.endswith(".py") and len(res.files[k]) > 200]
        ctx.sample({"kind": kind, "options": cfg, "source": first_source(sources)[:600], "generated": res.files[pyfiles[0]].decode("utf-8", "replace")[:700] if pyfiles else ""})


def first_source(sources):
    k = sorted(sources)[0]
    v = sources[k]
    return f"--- {k}\n" + (v if isinstance(v, str) else v.decode("utf-8", "replace"))


def norm(msg):
    import re

    msg = re.sub(r"c7x\d+", "#", str(msg))
    msg = re.sub(r"0x[0-9a-f]+", "0x..", msg)
    msg = re.sub(r"'[^']{0,60}'", "'..'", msg)
    msg = re.sub(r"/tmp/[^\s:]+", "<tmp>", msg)
    return msg[:110]


def replay(witness, ctx):
    check(ctx, witness["seed"], witness["kind"])


KINDS = ["xsd", "xsd", "xsd", "dtd", "wsdl", "xml-samples", "json-samples"]

PROBE_XSD = """<?xml version="1.0" encoding="UTF-8"?>
<xs:schema xmlns:xs="http://www.w3.org/2001/XMLSchema">
  <xs:element name="root">
    <xs:complexType>
      <xs:sequence>
        <xs:element name="Item">
          <xs:complexType><xs:sequence><xs:element name="v" type="xs:int"/></xs:sequence></xs:complexType>
        </xs:element>
        <xs:element name="other" type="xs:string"/>
      </xs:sequence>
    </xs:complexType>
  </xs:element>
</xs:schema>"""


PROBE_K1 = """<?xml version="1.0" encoding="UTF-8"?>
<xs:schema xmlns:xs="http://www.w3.org/2001/XMLSchema">
  <xs:element name="root"><xs:complexType><xs:sequence>
    <xs:element name="foo_bar"><xs:complexType><xs:sequence><xs:element name="v" type="xs:int"/></xs:sequence></xs:complexType></xs:element>
    <xs:element name="%s"><xs:complexType><xs:sequence><xs:element name="v" type="xs:int"/></xs:sequence></xs:complexType></xs:element>
  </xs:sequence></xs:complexType></xs:element>
</xs:schema>"""


def _problems(src, cfg):
    res = gen.generate({"probe.xsd": src}, config=cfg, route="api", hooks=False, timeout=120)
    if res.status != "ok":
        return None if res.status in ("timeout", "crash") else [["generation", res.exc_type, res.message]]
    run = gen.run_in_package(res.files, POST_SCRIPT, args={"files": sorted(res.files), "modules": gen.package_modules(res.files)}, timeout=120)
    return run.result["problems"] if run.status == "ok" else None


def probe_class_identifier_collision():
    """Known finding: duplicate detection runs on schema names, the identifiers produced afterwards by
    the naming conventions can still collide (two sibling anonymous types `foo_bar` / `foo.bar` -> two
    inner classes FooBar)."""
    bad = _problems(PROBE_K1 % "foo.bar", {})
    good = _problems(PROBE_K1 % "baz", {})
    if bad is None or good is None:
        return None
    return any(p[0] == "duplicate-class" for p in bad) and not good


PROBE_PREFIX = """<?xml version="1.0" encoding="UTF-8"?>
<xs:schema xmlns:xs="http://www.w3.org/2001/XMLSchema">
  <xs:simpleType name="kind"><xs:restriction base="xs:string">
    <xs:enumeration value=""/><xs:enumeration value="x-"/><xs:enumeration value="y"/>
  </xs:restriction></xs:simpleType>
  <xs:element name="root" type="kind"/>
</xs:schema>"""


def probe_custom_safe_prefix():
    """Known finding: duplicate member detection assumes the default safe prefix (`value`); with a custom
    field_name.safe_prefix `x` (which the constant name filter uses too) the empty enumeration value falls back to `X` and collides with the
    member `x-` (TypeError from enum while the generator imports its own output)."""
    res = gen.generate({"probe.xsd": PROBE_PREFIX}, config={"conventions.field_name.safe_prefix": "x"}, route="api", hooks=False, timeout=120)
    good = _problems(PROBE_PREFIX, {})
    if res.status in ("timeout", "crash") or good is None:
        return None
    bad = (res.status == "error" and not res.is_a("xsdata.codegen.exceptions.CodegenError")) or (res.status == "ok" and bool(_problems(PROBE_PREFIX, {"conventions.field_name.safe_prefix": "x"})))
    return bad and not good


def probe_field_inner_class_clash():
    """Known finding: with a field naming convention that keeps the element's own case, a field and
    the inner class generated for its anonymous type get the same identifier (`Item: Root.Item`)."""
    res = gen.generate({"probe.xsd": PROBE_XSD}, config={"conventions.field_name.case": "originalCase", "output.format.slots": True}, route="api", hooks=False, timeout=120)
    if res.status == "error":
        return not (res.is_a("xsdata.codegen.exceptions.CodegenError"))
    if res.status != "ok":
        return None
    run = gen.run_in_package(res.files, POST_SCRIPT, args={"files": sorted(res.files), "modules": gen.package_modules(res.files)}, timeout=120)
    if run.status != "ok":
        return None
    bad = bool(run.result["problems"])
    # counterfactual: the default convention (snake_case fields) is fine
    res2 = gen.generate({"probe.xsd": PROBE_XSD}, config={}, route="api", hooks=False, timeout=120)
    run2 = gen.run_in_package(res2.files, POST_SCRIPT, args={"files": sorted(res2.files), "modules": gen.package_modules(res2.files)}, timeout=120) if res2.status == "ok" else None
    ok2 = run2 is not None and run2.status == "ok" and not run2.result["problems"]
    return bad and ok2


def run_shard(ctx):
    rng = ctx.rng
    if ctx.shard == 0:
        ctx.evals()
        r = probe_field_inner_class_clash()
        if r is None:
            ctx.inconc("probe C07/field-name-equals-inner-class-name could not run")
        elif r:
            ctx.known_finding("C07/field-name-equals-inner-class-name")
        ctx.evals()
        r = probe_class_identifier_collision()
        if r is None:
            ctx.inconc("probe C07/class-identifiers-collide-after-naming-conventions could not run")
        elif r:
            ctx.known_finding("C07/class-identifiers-collide-after-naming-conventions")
        ctx.evals()
        r = probe_custom_safe_prefix()
        if r is None:
            ctx.inconc("probe C07/custom-safe-prefix-collides-with-real-name could not run")
        elif r:
            ctx.known_finding("C07/custom-safe-prefix-collides-with-real-name")
    n = ctx.per_shard(ctx.pick(420, 3000))
    k = 0
    while k < n and (ctx.time_left() > 0 or len(ctx.fingerprints) < MIN_DISTINCT[ctx.tier] // ctx.nshards + 1):
        kind = KINDS[(k + ctx.shard) % len(KINDS)]
        check(ctx, rng.getrandbits(40), kind)
        k += 1
