"""Code-generation runner: every generation is ONE fresh subprocess in a fresh temp cwd.

    from vf.gen import generate, run_in_package, package_modules, first_divergence

The calling process never imports xsdata.codegen (it cannot: /venv has no click / jinja2 /
toposort; the stand-ins of /verif/shims are only put on the PYTHONPATH of the children).

Routes
  "api"     child = `python -m vf.gen_child job.json`: GeneratorConfig() + options,
            `ResourceTransformer(config).process(sorted(uris))` exactly like
            `xsdata.cli.generate` (uris through `xsdata.cli.resolve_source`).
  "cli"     child = `python -m xsdata generate <source> <flags>`; the flags are derived
            from the option table below the way xsdata.utils.click.model_options names
            them. Options without a flag -> ValueError("not expressible as CLI flags").
  "config"  child = `python -m xsdata generate <source> --config <file>`; the file is
            written with GeneratorConfig.write by a start-up hook *inside the same
            child* (vf/boot/sitecustomize.py -> vf.gen_child.boot) before the CLI runs.

Layout of one generation: <tmp>/ is the cwd (= output directory), <tmp>/src/ holds the
sources, <tmp>/.verif/ the job / status / step-log files. `GenResult.files` lists every
file under <tmp> except src/, .verif/ and __pycache__/.

Child environment: PYTHONPATH=/verif/shims:/verif:/repo (cli/config routes: additionally
/verif/vf/boot right after the shims, for the sitecustomize start-up hook),
PATH=/verif/shims/bin:$PATH, PYTHONHASHSEED=<hashseed>, PYTHONDONTWRITEBYTECODE=1.

repeat > 1 (route "api"): the same generation runs `repeat` times inside the one child,
each time with a new GeneratorConfig / ResourceTransformer, into the same cwd; after run
i its output is moved to <tmp>/out<i>/ (keys of `files` are then "out0/...", "out1/...").
Generating into sibling directories by os.chdir is not possible on the unchanged tree:
xsdata.utils.package.package_path/module_path cache cwd-joined paths (lru_cache), so the
second run raises ValueError("... is not in the subpath of ...") in
DataclassGenerator.render.

Hooks (`hooks=True`, all routes): observation only — the step-digest log around the
ClassContainer pipeline (`GenResult.steps`, compare two with `first_divergence`) and, on
the cli/config routes, a probe that keeps class / MRO / message of an exception leaving
ResourceTransformer.process (click only leaves an exit code and "Error: ..." text; with
hooks=False the status of those routes is derived from exit code + stderr alone).
Digests are independent of id() values and of the temp directory name.
"""

from __future__ import annotations

import json
import os
import re
import shutil
import signal
import subprocess
import sys
import tempfile
import time
from dataclasses import dataclass, field
from pathlib import Path
from typing import Any

ROOT = Path(__file__).resolve().parent.parent
REPO = Path(os.environ.get("VERIF_REPO", "/repo"))
PY = os.environ.get("VERIF_PYTHON", "/venv/bin/python")
SHIMS = ROOT / "shims"
BOOT = ROOT / "vf" / "boot"
SUPPORTED_EXTENSIONS = ("wsdl", "xsd", "dtd", "xml", "json")  # xsdata.cli._SUPPORTED_EXTENSIONS
CODEGEN_ERROR = "xsdata.codegen.exceptions.CodegenError"
CODEGEN_ERROR_MRO = [CODEGEN_ERROR, "click.exceptions.ClickException", "Exception", "BaseException", "object"]

# ---------------------------------------------------------------------------------------
# option table: mirror of xsdata.models.config.GeneratorConfig (checked against the real
# dataclasses by `real_option_table()` in the smoke test, and by the child on every use)
# ---------------------------------------------------------------------------------------

ENUMS: dict[str, dict[str, str]] = {  # enum -> {value: member name}
    "StructureStyle": {
        "filenames": "FILENAMES",
        "namespaces": "NAMESPACES",
        "clusters": "CLUSTERS",
        "single-package": "SINGLE_PACKAGE",
        "namespace-clusters": "NAMESPACE_CLUSTERS",
    },
    "DocstringStyle": {
        "reStructuredText": "RST",
        "NumPy": "NUMPY",
        "Google": "GOOGLE",
        "Accessible": "ACCESSIBLE",
        "Blank": "BLANK",
    },
    "NameCase": {
        "originalCase": "ORIGINAL",
        "pascalCase": "PASCAL",
        "camelCase": "CAMEL",
        "snakeCase": "SNAKE",
        "screamingSnakeCase": "SCREAMING_SNAKE",
        "mixedCase": "MIXED",
        "mixedSnakeCase": "MIXED_SNAKE",
        "mixedPascalCase": "MIXED_PASCAL",
    },
    "ObjectType": {"class": "CLASS", "field": "FIELD", "module": "MODULE", "package": "PACKAGE"},
    "ExtensionType": {"class": "CLASS", "decorator": "DECORATOR"},
}


@dataclass(frozen=True)
class Opt:
    kind: str  # "str" | "bool" | "int" | enum name | "list"
    cli: str | None = None  # name model_options derives the flag from; None = no flag
    item: dict | None = None  # kind == "list": field -> kind of the item dataclass


OPTIONS: dict[str, Opt] = {
    "output.package": Opt("str", "package"),
    "output.format.value": Opt("str", "output"),
    "output.format.repr": Opt("bool", "repr"),
    "output.format.eq": Opt("bool", "eq"),
    "output.format.order": Opt("bool", "order"),
    "output.format.unsafe_hash": Opt("bool", "unsafe_hash"),
    "output.format.frozen": Opt("bool", "frozen"),
    "output.format.slots": Opt("bool", "slots"),
    "output.structure_style": Opt("StructureStyle", "structure_style"),
    "output.docstring_style": Opt("DocstringStyle", "docstring_style"),
    "output.relative_imports": Opt("bool", "relative_imports"),
    "output.compound_fields.enabled": Opt("bool", "compound-fields"),
    "output.compound_fields.default_name": Opt("str"),
    "output.compound_fields.use_substitution_groups": Opt("bool"),
    "output.compound_fields.force_default_name": Opt("bool"),
    "output.compound_fields.max_name_parts": Opt("int"),
    "output.wrapper_fields": Opt("bool", "wrapper_fields"),
    "output.max_line_length": Opt("int", "max_line_length"),
    "output.generic_collections": Opt("bool", "generic_collections"),
    "output.unnest_classes": Opt("bool", "unnest_classes"),
    "output.ignore_patterns": Opt("bool", "ignore_patterns"),
    "output.include_header": Opt("bool", "include_header"),
    **{
        f"conventions.{kind}.{leaf}": Opt("NameCase" if leaf == "case" else "str")
        for kind in ("class_name", "field_name", "constant_name", "module_name", "package_name")
        for leaf in ("case", "safe_prefix")
    },
    "substitutions.substitution": Opt("list", item={"type": "ObjectType", "search": "str", "replace": "str"}),
    "extensions.extension": Opt(
        "list",
        item={
            "type": "ExtensionType",
            "class_name": "str",
            "import_string": "str",
            "prepend": "bool",
            "apply_if_derived": "bool",
            "parent_path": "str?",
        },
    ),
}
DEFAULT_CONFIG = {"output.package": "generated"}


def _check_value(path: str, kind: str, value: Any) -> Any:
    """Validate one option value in the caller; enums are normalised to their value."""
    if kind.endswith("?"):
        if value is None:
            return None
        kind = kind[:-1]
    if kind == "bool":
        if not isinstance(value, bool):
            raise ValueError(f"{path}: expected bool, got {value!r}")
    elif kind == "int":
        if isinstance(value, bool) or not isinstance(value, int):
            raise ValueError(f"{path}: expected int, got {value!r}")
    elif kind == "str":
        if not isinstance(value, str):
            raise ValueError(f"{path}: expected str, got {value!r}")
    else:
        members = ENUMS[kind]
        if value in members:
            return value
        by_name = {name: val for val, name in members.items()}
        if value in by_name:
            return by_name[value]
        raise ValueError(f"{path}: {value!r} is not a value of {kind} {sorted(members)}")
    return value


def normalize_config(config: dict | None) -> dict:
    """Flat dotted options -> validated copy (defaults added). Unknown path: ValueError."""
    out = dict(DEFAULT_CONFIG)
    for path, value in (config or {}).items():
        opt = OPTIONS.get(path)
        if opt is None:
            hint = [p for p in OPTIONS if p.startswith(path + ".")]
            extra = f" (a group; its options are {hint})" if hint else ""
            raise ValueError(f"unknown generator option {path!r}{extra}")
        if opt.kind == "list":
            if not isinstance(value, (list, tuple)):
                raise ValueError(f"{path}: expected a list of dicts")
            items = []
            for i, entry in enumerate(value):
                unknown = set(entry) - set(opt.item)
                if unknown:
                    raise ValueError(f"{path}[{i}]: unknown keys {sorted(unknown)}")
                items.append({k: _check_value(f"{path}[{i}].{k}", opt.item[k], v) for k, v in entry.items()})
            out[path] = items
        else:
            out[path] = _check_value(path, opt.kind, value)
    return out


def cli_flags(config: dict) -> list[str]:
    """Flags for `xsdata generate`, named like xsdata.utils.click.build_options does:
    bool -> --kebab-name / --no-kebab-name, "output" -> --output, other -> --kebab-name."""
    flags: list[str] = []
    impossible = []
    for path, value in config.items():
        opt = OPTIONS[path]
        if opt.cli is None or not path.startswith("output."):
            impossible.append(path)
            continue
        name = opt.cli.replace("_", "-")
        if opt.kind == "bool":
            flags.append(f"--{name}" if value else f"--no-{name}")
        else:
            flags += [f"--{name}", str(value)]
    if impossible:
        raise ValueError(f"not expressible as CLI flags: {', '.join(sorted(impossible))}")
    return flags


# ---------------------------------------------------------------------------------------
# results
# ---------------------------------------------------------------------------------------


@dataclass
class GenResult:
    status: str  # "ok" | "error" | "timeout" | "crash"
    exc_type: str | None = None  # e.g. "xsdata.codegen.exceptions.CodegenError"; builtins bare ("ValueError")
    exc_mro: list[str] = field(default_factory=list)
    message: str = ""
    stdout: str = ""
    stderr: str = ""
    files: dict[str, bytes] = field(default_factory=dict)
    steps: list[dict] = field(default_factory=list)
    wall_s: float = 0.0
    # extras
    returncode: int | None = None
    exc_meta: dict = field(default_factory=dict)  # CodegenError.meta
    traceback: str = ""
    argv: list[str] = field(default_factory=list)
    route: str = ""

    @property
    def ok(self) -> bool:
        return self.status == "ok"

    def is_a(self, qualified_name: str) -> bool:
        """True when the raised exception is an instance of the named class."""
        return qualified_name in self.exc_mro or qualified_name == self.exc_type

    def summary(self) -> str:
        head = f"{self.route}:{self.status}"
        if self.exc_type:
            head += f" {self.exc_type}: {self.message[:300]}"
        return f"{head} ({len(self.files)} files, {self.wall_s:.2f}s)"


@dataclass
class RunResult:
    status: str  # "ok" | "error" | "timeout" | "crash"
    result: Any = None
    exc_type: str | None = None
    message: str = ""
    stdout: str = ""
    stderr: str = ""
    wall_s: float = 0.0
    returncode: int | None = None

    @property
    def ok(self) -> bool:
        return self.status == "ok"


# ---------------------------------------------------------------------------------------
# subprocess plumbing
# ---------------------------------------------------------------------------------------


def child_env(hashseed: int | str, *, shims: bool, boot: bool = False) -> dict[str, str]:
    env = dict(os.environ)
    for var in ("PYTHONSTARTUP", "PYTHONINSPECT", "PYTHONHOME", "PYTHONOPTIMIZE", "PYTHONWARNINGS", "XSDATA_VERIF_GEN_JOB"):
        env.pop(var, None)
    path = []
    if shims:
        path.append(str(SHIMS))
    if boot:
        path.append(str(BOOT))
    path += [str(ROOT), str(REPO)]
    env["PYTHONPATH"] = os.pathsep.join(path)
    if shims:
        env["PATH"] = str(SHIMS / "bin") + os.pathsep + env.get("PATH", "/usr/bin:/bin")
    env["PYTHONHASHSEED"] = str(hashseed)
    env["PYTHONDONTWRITEBYTECODE"] = "1"
    env["PYTHONIOENCODING"] = "utf-8"
    return env


def _run(argv: list[str], cwd: str, env: dict, timeout: float) -> tuple[str, int | None, str, str, float]:
    """-> (outcome "exit"|"timeout", returncode, stdout, stderr, wall_s); kills the whole
    process group on timeout."""
    t0 = time.monotonic()
    proc = subprocess.Popen(
        argv, cwd=cwd, env=env, stdin=subprocess.DEVNULL, stdout=subprocess.PIPE, stderr=subprocess.PIPE, start_new_session=True
    )
    try:
        out, err = proc.communicate(timeout=timeout)
        outcome = "exit"
    except subprocess.TimeoutExpired:
        try:
            os.killpg(proc.pid, signal.SIGKILL)
        except (ProcessLookupError, PermissionError):
            proc.kill()
        out, err = proc.communicate()
        outcome = "timeout"
    return outcome, proc.returncode, out.decode("utf-8", "replace"), err.decode("utf-8", "replace"), time.monotonic() - t0


def _write_tree(base: Path, files: dict[str, bytes | str]) -> None:
    for rel, content in files.items():
        rel_path = Path(rel)
        if rel_path.is_absolute() or ".." in rel_path.parts:
            raise ValueError(f"file name must be relative and inside the tree: {rel!r}")
        target = base / rel_path
        target.parent.mkdir(parents=True, exist_ok=True)
        target.write_bytes(content.encode("utf-8") if isinstance(content, str) else bytes(content))


def _collect(base: Path, exclude_top: tuple[str, ...]) -> dict[str, bytes]:
    out: dict[str, bytes] = {}
    for dirpath, dirnames, filenames in os.walk(base):
        rel_dir = Path(dirpath).relative_to(base)
        dirnames[:] = sorted(d for d in dirnames if d != "__pycache__" and not (rel_dir == Path(".") and d in exclude_top))
        for name in sorted(filenames):
            p = Path(dirpath) / name
            if p.is_file():
                out[(rel_dir / name).as_posix()] = p.read_bytes()
    return out


def _read_json(path: Path) -> Any:
    try:
        return json.loads(path.read_text(encoding="utf-8"))
    except (OSError, ValueError):
        return None


def _read_steps(path: Path) -> list[dict]:
    steps = []
    try:
        with open(path, encoding="utf-8") as f:
            for line in f:
                try:
                    steps.append(json.loads(line))
                except ValueError:
                    break  # torn last line of a killed child
    except OSError:
        pass
    return steps


# ---------------------------------------------------------------------------------------
# generate
# ---------------------------------------------------------------------------------------

_EXC_LINE = re.compile(r"^([A-Za-z_][\w.]*)(?:: (.*))?$", re.S)


def _cli_source_args(src: Path, sources: dict, entry: list[str]) -> list[str]:
    """`xsdata generate` takes exactly one source (file, directory or URI)."""
    if len(entry) == 1:
        return [str(src / entry[0])]
    names = {Path(n).as_posix() for n in sources}
    wanted = {Path(n).as_posix() for n in entry}
    supported = {n for n in names if n.rsplit(".", 1)[-1] in SUPPORTED_EXTENSIONS and "." in n}
    top = {n for n in supported if "/" not in n}
    if wanted == top:
        return [str(src)]
    if wanted == supported:
        return [str(src), "--recursive"]
    raise ValueError("not expressible as CLI flags: several entry files that are not a whole (sub)directory listing")


def _status_from_cli(rc: int | None, out: str, err: str) -> dict:
    """Status of a `python -m xsdata` child from exit code + streams (see xsdata/__main__.py,
    click's standalone mode and CodegenError.show)."""
    if rc == 0:
        return {"status": "ok"}
    if rc is not None and rc < 0:
        return {"status": "crash", "message": f"killed by signal {-rc}"}
    err_lines = err.splitlines()
    headers = [i for i, ln in enumerate(err_lines) if ln.startswith("Traceback (most recent call last):")]
    if headers:
        # after the last header: indented frame lines, then "pkg.mod.Exc: message" (the
        # message may continue on further lines)
        tail = err_lines[headers[-1] + 1 :]
        first = next((i for i, ln in enumerate(tail) if ln and not ln[0].isspace()), None)
        m = _EXC_LINE.match("\n".join(tail[first:])) if first is not None else None
        if m:
            return {"status": "error", "exc_type": m.group(1), "exc_mro": [m.group(1)], "message": (m.group(2) or "").strip(), "traceback": err[-20000:]}
    error_lines = [ln for ln in err.splitlines() if ln.startswith("Error: ")]
    if rc == 1 and error_lines:
        msg_start = err.rindex(error_lines[-1])
        message = err[msg_start + len("Error: ") :].strip()
        if "=========" in out.splitlines():
            after = out.splitlines()[out.splitlines().index("=========") + 1 :]
            meta = dict(ln.split(": ", 1) for ln in after if ": " in ln)
            return {"status": "error", "exc_type": CODEGEN_ERROR, "exc_mro": list(CODEGEN_ERROR_MRO), "message": message, "exc_meta": meta}
        return {"status": "error", "exc_type": "click.exceptions.ClickException", "exc_mro": CODEGEN_ERROR_MRO[1:], "message": message}
    if rc == 2 and error_lines:
        return {"status": "error", "exc_type": "click.exceptions.UsageError", "exc_mro": ["click.exceptions.UsageError", *CODEGEN_ERROR_MRO[1:]], "message": error_lines[-1][len("Error: ") :]}
    if rc == 1 and "Install cli requirements" in out:
        return {"status": "error", "exc_type": "ImportError", "exc_mro": ["ImportError", "Exception", "BaseException", "object"], "message": "an ImportError escaped xsdata.cli.cli(); xsdata/__main__.py reported it as missing cli requirements"}
    if rc == 1 and "Aborted!" in err:
        return {"status": "error", "exc_type": "click.exceptions.Abort", "exc_mro": ["click.exceptions.Abort", "RuntimeError", "Exception", "BaseException", "object"], "message": "Aborted!"}
    return {"status": "error", "exc_type": None, "exc_mro": [], "message": f"exit code {rc}"}


def generate(
    sources: dict[str, bytes | str],
    *,
    entry: list[str] | None = None,
    config: dict | None = None,
    route: str = "api",
    hashseed: int | str = 0,
    timeout: float = 180,
    hooks: bool = True,
    repeat: int = 1,
    recursive: bool = False,
) -> GenResult:
    """Run one code generation in a fresh subprocess. See the module docstring."""
    if route not in ("api", "cli", "config"):
        raise ValueError(f"unknown route {route!r}")
    if not sources:
        raise ValueError("no sources")
    if repeat < 1 or (repeat > 1 and route != "api"):
        raise ValueError("repeat > 1 is only available for route='api'")
    options = normalize_config(config)
    entry = sorted(sources) if entry is None else list(entry)
    for name in entry:
        if name not in (".", "./") and name not in sources and not any(s.startswith(name.rstrip("/") + "/") for s in sources):
            raise ValueError(f"entry {name!r} is neither a source file nor a directory of sources")
    flags = cli_flags(options) if route == "cli" else []

    root = Path(tempfile.mkdtemp(prefix="xsdata-verif-gen-")).resolve()
    try:
        src, meta = root / "src", root / ".verif"
        src.mkdir()
        meta.mkdir()
        _write_tree(src, sources)
        job = {
            "root": str(root),
            "route": route,
            "config": options,
            "hooks": bool(hooks),
            "repeat": repeat,
            "recursive": bool(recursive),
            "entry": [str(src / name) for name in entry],
            "status": str(meta / "status.json"),
            "steplog": str(meta / "steps.jsonl"),
            "excfile": str(meta / "exception.json"),
        }
        if route == "api":
            argv = [PY, "-m", "vf.gen_child", str(meta / "job.json")]
            env = child_env(hashseed, shims=True)
        else:
            source_args = _cli_source_args(src, sources, entry)
            if recursive and "--recursive" not in source_args:
                source_args.append("--recursive")
            argv = [PY, "-m", "xsdata", "generate", *source_args]
            boot = bool(hooks) or route == "config"
            if route == "config":
                job["write_config"] = str(meta / "xsdata-config.xml")
                argv += ["--config", job["write_config"]]
            else:
                argv += flags
            env = child_env(hashseed, shims=True, boot=boot)
            if boot:
                env["XSDATA_VERIF_GEN_JOB"] = str(meta / "job.json")
        (meta / "job.json").write_text(json.dumps(job), encoding="utf-8")

        outcome, rc, out, err, wall = _run(argv, str(root), env, timeout)
        status = _read_json(Path(job["status"])) or {}
        res = GenResult(status="crash", stdout=out, stderr=err, wall_s=wall, returncode=rc, argv=argv, route=route)
        res.steps = _read_steps(Path(job["steplog"])) if hooks else []
        res.files = _collect(root, exclude_top=("src", ".verif"))
        if outcome == "timeout":
            res.status, res.message = "timeout", f"no result within {timeout}s"
            return res
        if route == "api":
            if status.get("status") in ("ok", "error"):
                info = status
            else:
                info = {"status": "crash", "message": f"interpreter exited with {rc} without writing the status file"}
        else:
            if status.get("status") == "boot-error":
                raise RuntimeError(f"vf.gen start-up hook failed in the child: {status.get('exc_type')}: {status.get('message')}\n{status.get('traceback', '')}")
            if env.get("XSDATA_VERIF_GEN_JOB") and status.get("status") != "booted":
                raise RuntimeError(f"vf.gen start-up hook did not run in the child (exit {rc}):\n{err[-2000:]}")
            info = _status_from_cli(rc, out, err)
            probe = _read_json(Path(job["excfile"]))
            if info["status"] == "error" and probe:
                # exact class / MRO seen leaving ResourceTransformer.process
                if info.get("exc_type") in (None, probe["exc_type"], probe["exc_type"].rsplit(".", 1)[-1]) or info.get("exc_type") == "ImportError":
                    cli_view = dict(info)
                    info = {"status": "error", **probe}
                    info.setdefault("exc_meta", cli_view.get("exc_meta", {}))
        res.status = info["status"]
        res.exc_type = info.get("exc_type")
        res.exc_mro = list(info.get("exc_mro") or [])
        res.message = info.get("message", "") or ""
        res.exc_meta = dict(info.get("exc_meta") or {})
        res.traceback = info.get("traceback", "") or ""
        return res
    finally:
        shutil.rmtree(root, ignore_errors=True)


# ---------------------------------------------------------------------------------------
# step logs
# ---------------------------------------------------------------------------------------


def first_divergence(steps_a: list[dict], steps_b: list[dict]) -> dict | None:
    """First record at which two step-digest logs differ, or None.

    Result: {"index", "run", "step", "kind", ...} with kind one of
      "step-sequence"  different stage at the same position (a/b give the labels)
      "classes"        class sets/contents differ: only_in_a, only_in_b, changed (keys
                       "qname#index" with different per-class digests), first_class
      "order"          same classes, different container order
      "handlers"       same digests, different handler list / call count
      "error"          one run raised in this stage and the other did not
      "length"         one log is a prefix of the other
    """
    for i, (a, b) in enumerate(zip(steps_a, steps_b)):
        where = {"index": i, "run": a.get("run"), "step": a.get("step")}
        if (a.get("run"), a.get("step")) != (b.get("run"), b.get("step")):
            return {**where, "kind": "step-sequence", "a": [a.get("run"), a.get("step")], "b": [b.get("run"), b.get("step")]}
        if a.get("digest") != b.get("digest") or a.get("n_classes") != b.get("n_classes"):
            ca, cb = a.get("classes") or {}, b.get("classes") or {}
            only_a = sorted(set(ca) - set(cb))
            only_b = sorted(set(cb) - set(ca))
            changed = sorted(k for k in set(ca) & set(cb) if ca[k] != cb[k])
            kind = "classes" if (only_a or only_b or changed) else "order"
            first = (changed or only_a or only_b or [None])[0]
            return {**where, "kind": kind, "only_in_a": only_a, "only_in_b": only_b, "changed": changed, "first_class": first, "n_classes": [a.get("n_classes"), b.get("n_classes")]}
        if a.get("error") != b.get("error"):
            return {**where, "kind": "error", "a": a.get("error"), "b": b.get("error")}
        if a.get("handlers") != b.get("handlers") or a.get("handler_calls") != b.get("handler_calls"):
            return {**where, "kind": "handlers", "a": [a.get("handlers"), a.get("handler_calls")], "b": [b.get("handlers"), b.get("handler_calls")]}
    if len(steps_a) != len(steps_b):
        i = min(len(steps_a), len(steps_b))
        longer = steps_a if len(steps_a) > len(steps_b) else steps_b
        return {"index": i, "run": longer[i].get("run"), "step": longer[i].get("step"), "kind": "length", "lengths": [len(steps_a), len(steps_b)]}
    return None


# ---------------------------------------------------------------------------------------
# running code against a generated package
# ---------------------------------------------------------------------------------------

_RUNNER = r"""
import json, sys, traceback, types
pkgdir, script_path, args_path, result_path = sys.argv[1:5]
sys.path[0] = pkgdir
def _qual(cls):
    return cls.__qualname__ if cls.__module__ == "builtins" else cls.__module__ + "." + cls.__qualname__
status = {"status": "ok", "result": None}
try:
    with open(script_path, encoding="utf-8") as f:
        source = f.read()
    with open(args_path, encoding="utf-8") as f:
        args = json.load(f)
    mod = types.ModuleType("__verif_script__")
    mod.__file__ = script_path
    mod.ARGS = args
    sys.modules["__verif_script__"] = mod
    exec(compile(source, "<run_in_package script>", "exec"), mod.__dict__)
    if "RESULT" not in mod.__dict__:
        raise NameError("the script did not assign RESULT")
    status["result"] = mod.__dict__["RESULT"]
    json.dumps(status["result"])
except BaseException as e:
    traceback.print_exc()
    status = {"status": "error", "result": None, "exc_type": _qual(type(e)), "exc_mro": [_qual(c) for c in type(e).__mro__], "message": str(e)}
sys.stdout.flush(); sys.stderr.flush()
with open(result_path + ".tmp", "w", encoding="utf-8") as f:
    json.dump(status, f)
import os
os.replace(result_path + ".tmp", result_path)
"""


def run_in_package(
    files: dict[str, bytes],
    script: str,
    *,
    args: Any = None,
    timeout: float = 120,
    hashseed: int | str = 0,
    extra_files: dict[str, bytes] | None = None,
) -> RunResult:
    """Materialise `files` (+ `extra_files`) in a fresh temp dir and run `script` there in a
    fresh interpreter: cwd = sys.path[0] = that dir, PYTHONPATH=/verif:/repo (no shims).
    The script sees ARGS and must assign a JSON-able RESULT."""
    root = Path(tempfile.mkdtemp(prefix="xsdata-verif-pkg-")).resolve()
    try:
        pkg, meta = root / "pkg", root / "meta"
        pkg.mkdir()
        meta.mkdir()
        _write_tree(pkg, files)
        if extra_files:
            _write_tree(pkg, extra_files)
        (meta / "runner.py").write_text(_RUNNER, encoding="utf-8")
        (meta / "script.py").write_text(script, encoding="utf-8")
        (meta / "args.json").write_text(json.dumps(args), encoding="utf-8")
        result_path = meta / "result.json"
        argv = [PY, str(meta / "runner.py"), str(pkg), str(meta / "script.py"), str(meta / "args.json"), str(result_path)]
        outcome, rc, out, err, wall = _run(argv, str(pkg), child_env(hashseed, shims=False), timeout)
        res = RunResult(status="crash", stdout=out, stderr=err, wall_s=wall, returncode=rc)
        if outcome == "timeout":
            res.status, res.message = "timeout", f"no result within {timeout}s"
            return res
        status = _read_json(result_path)
        if not status:
            res.message = f"interpreter exited with {rc} without writing the result file"
            return res
        res.status = status["status"]
        res.result = status.get("result")
        res.exc_type = status.get("exc_type")
        res.message = status.get("message", "") or ""
        return res
    finally:
        shutil.rmtree(root, ignore_errors=True)


def package_modules(files: dict[str, bytes]) -> list[str]:
    """Dotted names of all python modules in a generated tree (packages before their
    members), e.g. ["generated", "generated.books"]."""
    names = set()
    for rel in files:
        p = Path(rel)
        if p.suffix != ".py":
            continue
        parts = list(p.parts[:-1]) + ([] if p.name == "__init__.py" else [p.stem])
        if parts and all(part.isidentifier() for part in parts):
            names.add(".".join(parts))
    return sorted(names, key=lambda n: (n.count("."), n))


def subtree(files: dict[str, bytes], prefix: str) -> dict[str, bytes]:
    """Files under `prefix/` with the prefix removed (e.g. "out0" of a repeat run)."""
    prefix = prefix.rstrip("/") + "/"
    return {k[len(prefix) :]: v for k, v in files.items() if k.startswith(prefix)}


def real_option_table(timeout: float = 60) -> dict:
    """Ask the real dataclasses (in a child) for option paths, kinds and CLI flag names —
    used to check that OPTIONS / cli_flags have not drifted from /repo."""
    script = r"""
import enum, json, sys
from dataclasses import fields, is_dataclass
from typing import get_type_hints
from xsdata.models.config import GeneratorConfig, GeneratorOutput
from xsdata.utils.click import build_options
paths = {}
def walk(cls, prefix):
    hints = get_type_hints(cls)
    for f in fields(cls):
        h = hints[f.name]
        p = f"{prefix}.{f.name}".strip(".")
        if is_dataclass(h):
            walk(h, p)
        elif isinstance(h, type) and issubclass(h, enum.Enum):
            paths[p] = h.__name__
        elif h in (str, bool, int):
            paths[p] = h.__name__
        else:
            paths[p] = "list"
walk(GeneratorConfig, "")
flags = {}
class F: pass
def probe(): pass
for deco in build_options(GeneratorOutput, ""):
    f = lambda: None
    deco(f)
    o = f.__click_params__[-1]
    flags["output." + o.name.replace("__", ".")] = sorted(o.opts + o.secondary_opts)
enums = {}
import xsdata.models.config as c
for name in ("StructureStyle", "DocstringStyle", "NameCase", "ObjectType", "ExtensionType"):
    enums[name] = {m.value: m.name for m in getattr(c, name)}
json.dump({"paths": paths, "flags": flags, "enums": enums}, sys.stdout)
"""
    outcome, rc, out, err, _ = _run([PY, "-c", script], str(ROOT), child_env(0, shims=True), timeout)
    if outcome != "exit" or rc != 0:
        raise RuntimeError(f"real_option_table child failed ({outcome}, {rc}):\n{err[-3000:]}")
    return json.loads(out)


def check_option_table() -> list[str]:
    """Differences between OPTIONS/ENUMS/cli_flags and the real xsdata tree ([] = in sync)."""
    real = real_option_table()
    problems = []
    mine = {p: o.kind for p, o in OPTIONS.items()}
    real_paths = {p: k for p, k in real["paths"].items() if p != "version"}
    for p in sorted(set(mine) | set(real_paths)):
        if mine.get(p) != real_paths.get(p):
            problems.append(f"option {p}: table {mine.get(p)!r} vs real {real_paths.get(p)!r}")
    if real["enums"] != ENUMS:
        problems.append(f"enum tables differ: {real['enums']} vs {ENUMS}")
    for p, o in OPTIONS.items():
        real_flags = real["flags"].get(p)
        if o.cli is None or not p.startswith("output."):
            if real_flags:
                problems.append(f"{p}: real CLI has flags {real_flags}, table says none")
            continue
        if o.kind == "bool":
            sample = {cli_flags({p: True})[0], cli_flags({p: False})[0]}
        else:
            sample = {cli_flags({p: "x"})[0]}
        if not real_flags or not sample <= set(real_flags):
            problems.append(f"{p}: table flags {sorted(sample)} vs real {real_flags}")
    return problems


# ---------------------------------------------------------------------------------------
# smoke test
# ---------------------------------------------------------------------------------------

_SMOKE_SCRIPT = r"""
import importlib
from pathlib import Path
from xsdata.formats.dataclass.parsers import XmlParser
from xsdata.formats.dataclass.serializers import XmlSerializer
import sys
assert not any("shims" in p for p in sys.path), sys.path
for name in ARGS["modules"]:
    importlib.import_module(name)
for banned in ("jinja2", "click", "toposort", "requests"):
    assert banned not in sys.modules, banned
mod = importlib.import_module(ARGS["modules"][0])
books = XmlParser().from_path(Path("books.xml"), mod.Books)
RESULT = {
    "n_books": len(books.book),
    "ids": [b.id for b in books.book],
    "first_title": books.book[0].title,
    "roundtrip_len": len(XmlSerializer().render(books)),
    "module_file_in_cwd": mod.__file__.startswith(sys.path[0]),
}
"""


def _smoke() -> int:
    t_all = time.monotonic()
    fixtures = REPO / "tests" / "fixtures" / "books"
    xsd = next(p for p in (fixtures / "books.xsd", fixtures / "schema.xsd") if p.exists())
    sources = {"books.xsd": xsd.read_bytes()}
    problems = check_option_table()
    print(f"option table vs real GeneratorConfig / model_options: {'in sync' if not problems else problems}")
    assert not problems

    results = {}
    for route in ("api", "cli", "config"):
        for seed in (0, 1):
            r = generate(sources, route=route, hashseed=seed)
            results[route, seed] = r
            print(f"  route={route:6s} seed={seed}: {r.status} files={sorted(r.files)} steps={len(r.steps)} wall={r.wall_s:.2f}s")
            assert r.ok, (r.summary(), r.stderr[-3000:])
    base = results["api", 0]
    assert sorted(base.files) == ["generated/__init__.py", "generated/books.py"], sorted(base.files)
    for key, r in results.items():
        assert r.files == base.files, f"file map of {key} differs from ('api', 0)"
        assert first_divergence(base.steps, r.steps) is None, (key, first_divergence(base.steps, r.steps))
    print(f"file maps byte-identical across 3 routes x 2 hash seeds; step logs identical ({[s['step'] for s in base.steps]})")
    print(f"  handlers of step 20: {base.steps[[s['step'] for s in base.steps].index(20)]['handlers']}")

    # options through all three routes, and one that the CLI cannot express
    opts = {"output.structure_style": "clusters", "output.docstring_style": "Google", "output.format.frozen": True, "output.compound_fields.enabled": True, "output.max_line_length": 100}
    variants = [generate(sources, route=route, config=opts) for route in ("api", "cli", "config")]
    assert all(v.ok for v in variants), [v.summary() for v in variants]
    assert variants[0].files == variants[1].files == variants[2].files and variants[0].files != base.files
    print(f"  with options {sorted(opts)}: routes agree, files={sorted(variants[0].files)}")
    try:
        generate(sources, route="cli", config={"conventions.field_name.case": "camelCase"})
    except ValueError as e:
        print(f"  cli route refuses conventions.*: {e}")
    else:
        raise AssertionError("expected ValueError")
    try:
        generate(sources, config={"output.no_such": 1})
    except ValueError as e:
        print(f"  unknown option: {e}")
    else:
        raise AssertionError("expected ValueError")
    api_conv = generate(sources, route="api", config={"conventions.field_name.case": "camelCase", "conventions.class_name.safe_prefix": "type"})
    cfg_conv = generate(sources, route="config", config={"conventions.field_name.case": "camelCase", "conventions.class_name.safe_prefix": "type"})
    assert api_conv.ok and cfg_conv.ok and api_conv.files == cfg_conv.files
    assert b"pubDate" in api_conv.files["generated/books.py"] or b"pub_date" not in api_conv.files["generated/books.py"]

    # error reporting through all routes: CodegenError (unknown attributeGroup reference), then a parser error
    bad = {"bad.xsd": b'<xs:schema xmlns:xs="http://www.w3.org/2001/XMLSchema"><xs:element name="a"><xs:complexType><xs:attributeGroup ref="nope"/></xs:complexType></xs:element></xs:schema>'}
    for route in ("api", "cli", "config"):
        r = generate(bad, route=route)
        print(f"  error case route={route}: {r.status} {r.exc_type}: {r.message[:70]!r} meta={r.exc_meta} mro={r.exc_mro[:2]}")
        assert r.status == "error" and r.exc_type == CODEGEN_ERROR and r.is_a("click.exceptions.ClickException"), r.summary()
    r = generate(bad, route="cli", hooks=False)
    assert r.status == "error" and r.exc_type == CODEGEN_ERROR, r.summary()
    r = generate({"t.xsd": b"<not-closed"}, route="cli", hooks=False)
    print(f"  traceback parse (cli, hooks off): {r.status} {r.exc_type}: {r.message[:60]!r}")
    assert r.status == "error" and r.exc_type and r.exc_type.endswith("Error"), r.summary()
    r2 = generate({"t.xsd": b"<not-closed"}, route="api")
    assert r2.status == "error" and r2.exc_type == r.exc_type, (r2.exc_type, r.exc_type)

    # repeat: same generation twice in one interpreter
    rep = generate(sources, repeat=2)
    assert rep.ok and subtree(rep.files, "out0") == subtree(rep.files, "out1") == base.files, sorted(rep.files)
    runs = [[s for s in rep.steps if s["run"] == i] for i in (0, 1)]
    for s in runs[1]:
        s["run"] = 0
    assert first_divergence(runs[0], runs[1]) is None
    print(f"  repeat=2: out0 == out1 == single run, {len(rep.steps)} step records, wall={rep.wall_s:.2f}s")

    # timeout and divergence plumbing
    r = generate(sources, timeout=0.05)
    assert r.status == "timeout", r.status
    other = generate({"books.xsd": xsd.read_bytes().replace(b'name="review"', b'name="revue"')})
    div = first_divergence(base.steps, other.steps)
    print(f"  first_divergence after renaming one element: {({k: div[k] for k in ('index', 'step', 'kind', 'first_class')}) if div else None}")
    assert div and div["kind"] == "classes" and div["step"] == "input"

    # import the generated package without the shims and parse the sample document
    modules = package_modules(base.files)
    assert modules == ["generated", "generated.books"], modules
    run = run_in_package(base.files, _SMOKE_SCRIPT, args={"modules": modules}, extra_files={"books.xml": (fixtures / "books.xml").read_bytes()})
    print(f"  run_in_package: {run.status} {run.result} wall={run.wall_s:.2f}s")
    assert run.ok, (run.exc_type, run.message, run.stderr[-2000:])
    assert run.result["n_books"] == 2 and run.result["ids"] == ["bk001", "bk002"] and run.result["module_file_in_cwd"]
    err = run_in_package(base.files, "import generated\nRESULT = 1 / 0\n")
    assert err.status == "error" and err.exc_type == "ZeroDivisionError", (err.status, err.exc_type)
    crash = run_in_package(base.files, "import os\nos._exit(7)\n")
    assert crash.status == "crash" and crash.returncode == 7

    leftovers = [p for p in Path(tempfile.gettempdir()).glob("xsdata-verif-gen-*")] + [p for p in Path(tempfile.gettempdir()).glob("xsdata-verif-pkg-*")]
    assert not leftovers, leftovers
    walls = [r.wall_s for r in results.values()]
    print(f"smoke test passed: one generation {min(walls):.2f}-{max(walls):.2f}s (mean {sum(walls) / len(walls):.2f}s), total {time.monotonic() - t_all:.1f}s")
    return 0


if __name__ == "__main__":
    sys.exit(_smoke())
