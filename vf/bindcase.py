"""Shared workload for the data-binding properties: generated model + instances + configurations,
witness encoding/decoding for replay, and helpers to run the real serializers/parsers."""

from __future__ import annotations

import dataclasses
import re
import warnings

from vf import ir
from vf.xmlkit import XSI, deep_eq

WRITERS = ("lxml", "native")
HANDLERS = ("lxml", "native")


def writer_cls(name):
    from xsdata.formats.dataclass.serializers.writers import XmlEventWriter

    if name == "native":
        return XmlEventWriter
    from xsdata.formats.dataclass.serializers.writers import LxmlEventWriter

    return LxmlEventWriter


def handler_cls(name):
    from xsdata.formats.dataclass.parsers.handlers import XmlEventHandler

    if name == "native":
        return XmlEventHandler
    from xsdata.formats.dataclass.parsers.handlers import LxmlEventHandler

    return LxmlEventHandler


class Case:
    def __init__(self, model, style, loaded, objs, default_ns=False):
        self.default_ns = default_ns
        self.model = model
        self.style = style
        self.loaded = loaded
        self.objs = objs

    def close(self):
        self.loaded.unload()


_salt_counter = [0]


def new_salt(ctx):
    _salt_counter[0] += 1
    return f"s{ctx.shard}n{_salt_counter[0]}"


def make_case(ctx, features=None, max_classes=4, max_fields=5, n_objs=3, default_ns=None, max_depth=3, json_mode=False, boost=(), adjacent_text=False):
    rng = ctx.rng
    if default_ns is None:
        default_ns = rng.random() < 0.5
    salt = new_salt(ctx)
    g = ir.Gen(rng, salt, features=features, max_classes=max_classes, max_fields=max_fields)
    g.boost = set(boost)
    model = g.model()
    style = rng.choice([0, 0, 1, 2, 3])
    if style & 1:
        model.future_annotations = True
    loaded = ir.load(model, style)
    ig = ir.InstGen(rng, loaded, max_depth=max_depth, default_ns=default_ns, json_mode=json_mode)
    ig.adjacent_text = adjacent_text
    objs = []
    for _ in range(n_objs):
        objs.append(ig.obj(model.root))
    if ig.wildcard_model_count:
        ctx.feature("value:model-instance-in-wildcard")
    return Case(model, style, loaded, objs, default_ns)


def structure_fp(model: ir.Model):
    """Fingerprint source with the salt removed (so equal shapes are counted once)."""
    s = repr(ir.model_to_json(model))
    return s.replace(model.salt, "#")


def obj_fp(model, obj):
    return repr(ir.enc_value(obj)).replace(model.salt, "#")


def model_features(model: ir.Model):
    feats = set()
    for c in model.classes:
        if c.base:
            feats.add("inheritance")
        if c.has_namespace:
            feats.add("class-namespace")
        if c.nillable:
            feats.add("class-nillable")
        if c.name_gen:
            feats.add("name-generator")
        if c.frozen:
            feats.add("frozen")
        if c.slots:
            feats.add("slots")
        if c.meta_name:
            feats.add("meta-name")
        for f in c.fields:
            feats.add(f"kind:{f.xml}")
            feats.add(f"container:{f.container}")
            if f.tokens:
                feats.add("tokens")
            if f.nillable:
                feats.add("nillable")
            if f.sequence is not None:
                feats.add("sequence")
            if f.wrapper:
                feats.add("wrapper")
            if f.namespace is not None:
                feats.add("field-namespace" if not f.namespace.startswith("##") else f"wildcard-ns:{f.namespace}")
            if f.format:
                feats.add(f"format:{f.format}")
            if len(f.types) > 1:
                feats.add("union")
            if f.mixed:
                feats.add("mixed")
            for t in f.types:
                feats.add(f"type:{t.name if t.kind == 'prim' else t.kind}")
    if model.module_namespace is not None:
        feats.add("module-namespace")
    if model.future_annotations:
        feats.add("future-annotations")
    return feats


def has_mixed(model):
    return any(f.mixed or f.xml == "Wildcard" or any(t.kind == "object" for t in f.types) for c in model.classes for f in c.fields)


# ----------------------------------------------------------------------------- configurations
def gen_config(ctx, model, loaded, obj, allow_default_ns=True, indent_mixed=False):
    """Serializer configuration as plain JSON."""
    rng = ctx.rng
    cfg = {"indent": rng.choice([None, None, "  ", "\t"]), "xml_declaration": rng.random() < 0.5, "ignore_default_attributes": rng.random() < 0.3, "ns_map": None}
    if has_mixed(model) and not indent_mixed:
        cfg["indent"] = None  # documented: the writers differ for mixed content with indentation (C01 asks for it: the text must survive)
    r = rng.random()
    eff = ir.effective_namespaces(model)
    uris = sorted({u for u in eff.values() if u} | {f.namespace for c in model.classes for f in c.fields if f.namespace and not f.namespace.startswith("#")})
    root_ns = eff[model.root]
    if unqualified_xsi_type_possible(model):
        # known finding C03/unqualified-xsi-type-under-default-namespace has its own probe
        allow_default_ns = False
    if r < 0.4:
        cfg["ns_map"] = None
    elif r < 0.55 and root_ns and allow_default_ns:
        cfg["ns_map"] = [["", root_ns]]
    elif r < 0.75 and uris:
        cfg["ns_map"] = [[f"p{i}", u] for i, u in enumerate(rng.sample(uris, rng.randrange(1, len(uris) + 1)))]
    elif r < 0.85:
        cfg["ns_map"] = [["unused", f"urn:vf:{model.salt}:unused"], ["xsi", XSI]]
    elif uris:
        u = rng.choice(uris)
        cfg["ns_map"] = [["one", u], ["two", u]]
    return cfg


def unqualified_xsi_type_possible(model):
    """A derived class whose xsi:type name has no namespace: not expressible while a default namespace is in scope."""
    for c in model.classes:
        if c.base:
            tns = model.module_namespace if model.module_namespace is not None else (c.namespace if (c.has_meta and c.has_namespace) else None)
            if not tns:
                return True
    return False


def ns_map_of(cfg):
    if cfg.get("ns_map") is None:
        return None
    return {(k or None): v for k, v in cfg["ns_map"]}


def render(loaded, obj, cfg, writer, context=None):
    from xsdata.formats.dataclass.context import XmlContext
    from xsdata.formats.dataclass.serializers import XmlSerializer
    from xsdata.formats.dataclass.serializers.config import SerializerConfig

    sc = SerializerConfig(indent=cfg.get("indent"), xml_declaration=cfg.get("xml_declaration", True), ignore_default_attributes=cfg.get("ignore_default_attributes", False),
                          schema_location=cfg.get("schema_location"), no_namespace_schema_location=cfg.get("no_namespace_schema_location"))
    ser = XmlSerializer(context=context or XmlContext(), config=sc, writer=writer_cls(writer))
    return ser.render(obj, ns_map=ns_map_of(cfg))


def strict_parser(handler, context=None, **over):
    from xsdata.formats.dataclass.context import XmlContext
    from xsdata.formats.dataclass.parsers import XmlParser
    from xsdata.formats.dataclass.parsers.config import ParserConfig

    pc = ParserConfig(fail_on_unknown_properties=True, fail_on_unknown_attributes=True, fail_on_converter_warnings=True)
    for k, v in over.items():
        setattr(pc, k, v)
    return XmlParser(context=context or XmlContext(), config=pc, handler=handler_cls(handler))


def parse_strict(xml, clazz, handler, context=None, as_bytes=False):
    from xsdata.exceptions import ConverterWarning

    p = strict_parser(handler, context)
    with warnings.catch_warnings():
        warnings.simplefilter("error", ConverterWarning)
        if as_bytes:
            return p.from_bytes(xml.encode("utf-8") if isinstance(xml, str) else xml, clazz)
        return p.from_string(xml, clazz)


# ----------------------------------------------------------------------------- witnesses
def witness(case_or_model, style, obj, cfg=None, **extra):
    model = case_or_model.model if isinstance(case_or_model, Case) else case_or_model
    w = {"model": ir.model_to_json(model), "style": style, "obj": ir.enc_value(obj), "cfg": cfg, "source": ir.render_source(model, style)}
    w.update(extra)
    return w


def from_witness(w):
    model = ir.model_from_json(w["model"])
    loaded = ir.load(model, w["style"])
    obj = ir.dec_value(w["obj"], loaded.ns)
    return model, loaded, obj


_path_rx = re.compile(r"\.([A-Za-z_][A-Za-z0-9_]*)|\[(\d+)\]|\['([^']*)'\]")


def diff_key(model, obj, diff):
    """Mechanism-ish key from the first differing path: the spec of the field it goes through last."""
    try:
        path = diff.split(":", 1)[0]
        cur, last = obj, None
        for m in _path_rx.finditer(path):
            name, idx, key = m.groups()
            if name is not None:
                cname = type(cur).__name__
                spec = None
                try:
                    c = model.cls(cname)
                    for _, f in ir.chain_fields(model, c):
                        if f.name == name:
                            spec = f
                except KeyError:
                    spec = None
                if spec is not None:
                    last = spec
                elif cname in ("AnyElement", "DerivedElement"):
                    last = f"{cname}.{name}"
                cur = getattr(cur, name, None)
            elif idx is not None:
                try:
                    cur = cur[int(idx)]
                except Exception:  # noqa: BLE001
                    break
            else:
                try:
                    cur = cur[key]
                except Exception:  # noqa: BLE001
                    break
        if isinstance(last, str):
            return last
        if last is None:
            return "root"
        flags = [k for k in ("tokens", "nillable", "wrapper", "sequence", "mixed", "format", "namespace") if getattr(last, k)]
        tn = "|".join(t.name if t.kind == "prim" else t.kind for t in last.types) or "choices"
        return f"{last.xml}:{tn}:{last.container}" + (":" + ",".join(flags) if flags else "")
    except Exception as e:  # noqa: BLE001
        return f"unclassified({type(e).__name__})"


def short_exc(e):
    msg = re.sub(r"[Ks]\d+n\d+x?\d*", "#", str(e))
    msg = re.sub(r"0x[0-9a-f]+", "0x..", msg)
    return f"{type(e).__name__}: {msg[:160]}"
