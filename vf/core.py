"""Shared runner: tiers, seeds, sharded subprocesses, verdicts, evidence, known findings.

A property module (vf/props/cXX.py) provides:

    ID, LEVEL, RULE, ASSUMPTIONS, MIN_DISTINCT = {"quick": n, "thorough": n}
    SHARDS = {"quick": n, "thorough": n}          (optional, default 14)
    TIME = {"quick": seconds, "thorough": seconds} (soft budget per shard)
    def run_shard(ctx): ...     drive the workload, call ctx.* to record
    def replay(witness, ctx): ...  re-execute one recorded case

Verdicts are three-valued: exit 0 held-on-what-was-observed, exit 1 violation (with a
VIOLATION line), exit 2 inconclusive (a deciding monitor was never reached, too few
distinct cases, a shard crashed or a watchdog fired).
"""

from __future__ import annotations

import hashlib
import importlib
import json
import os
import random
import subprocess
import sys
import tempfile
import time
import traceback
from collections import Counter
from pathlib import Path

ROOT = Path(__file__).resolve().parent.parent
REPO = Path(os.environ.get("VERIF_REPO", "/repo"))
PY = os.environ.get("VERIF_PYTHON", "/venv/bin/python")
DEPS = ROOT / ".deps"
SHIMS = ROOT / "shims"
NCPU = os.cpu_count() or 4


def fp(*parts) -> str:
    h = hashlib.sha1()
    for p in parts:
        h.update(repr(p).encode("utf-8", "backslashreplace"))
        h.update(b"\0")
    return h.hexdigest()[:16]


def fp64(*parts) -> int:
    return int(fp(*parts), 16)


def jsonable(o, depth=0):
    """Best-effort conversion of a witness into JSON (never raises)."""
    if depth > 80:
        return repr(o)
    if o is None or isinstance(o, (bool, int, str)):
        return o
    if isinstance(o, float):
        return o if o == o and abs(o) != float("inf") else repr(o)
    if isinstance(o, bytes):
        return {"__bytes__": o.hex()}
    if isinstance(o, dict):
        return {str(k): jsonable(v, depth + 1) for k, v in o.items()}
    if isinstance(o, (list, tuple, set, frozenset)):
        return [jsonable(v, depth + 1) for v in o]
    return repr(o)


class ShardCtx:
    """Recording interface handed to a property's run_shard()."""

    def __init__(self, prop_id, tier, seed, shard, nshards, time_budget, replaying=False):
        self.prop_id = prop_id
        self.tier = tier
        self.seed = seed
        self.shard = shard
        self.nshards = nshards
        self.rng = random.Random(seed * 100003 + shard * 7919 + 17)
        self.t0 = time.monotonic()
        self.time_budget = time_budget
        self.replaying = replaying
        self.evaluations = 0
        self.fingerprints: set[int] = set()
        self.features: Counter = Counter()
        self.hooks: Counter = Counter()
        self.dropped: Counter = Counter()
        self.samples: list = []
        self.violations: list = []
        self.known: Counter = Counter()
        self.inconclusive: list = []
        self.extra: dict = {}
        self._viol_keys: Counter = Counter()

    # ---- budgets
    def elapsed(self):
        return time.monotonic() - self.t0

    def time_left(self):
        return self.time_budget - self.elapsed()

    def quick(self):
        return self.tier == "quick"

    def pick(self, quick, thorough):
        return quick if self.tier == "quick" else thorough

    def per_shard(self, total):
        """Split a total case count over shards (at least 1)."""
        base, rem = divmod(total, self.nshards)
        return max(1, base + (1 if self.shard < rem else 0))

    def mine(self, index):
        """Deterministic partition of enumerated work across shards."""
        return index % self.nshards == self.shard

    # ---- recording
    def case(self, *fingerprint_parts, nontrivial=True):
        self.evaluations += 1
        if nontrivial:
            self.fingerprints.add(fp64(*fingerprint_parts))

    def evals(self, n=1):
        self.evaluations += n

    def feature(self, *names):
        for n in names:
            self.features[n] += 1

    def hook(self, name, n=1):
        self.hooks[name] += n

    def drop(self, rule):
        self.dropped[rule] += 1

    def sample(self, obj, cap=4):
        if len(self.samples) < cap:
            self.samples.append(jsonable(obj))

    def violation(self, key, summary, witness, known_key=None):
        """Record a violation. `key` groups duplicates (mechanism-level string);
        `known_key` is set by the property's classifier when the *counterfactually
        confirmed* mechanism is one that known_findings.json may list."""
        self._viol_keys[key] += 1
        if self._viol_keys[key] > 3:  # keep a few witnesses per key
            return
        self.violations.append(
            {
                "key": key,
                "summary": summary[:2000],
                "witness": jsonable(witness),
                "known_key": known_key,
            }
        )

    def known_finding(self, key):
        self.known[key] += 1

    def inconc(self, reason):
        self.inconclusive.append(reason)

    def result(self):
        return {
            "shard": self.shard,
            "evaluations": self.evaluations,
            "n_fingerprints": len(self.fingerprints),
            "features": dict(self.features),
            "hooks": dict(self.hooks),
            "dropped": dict(self.dropped),
            "samples": self.samples,
            "violations": self.violations,
            "viol_counts": dict(self._viol_keys),
            "known": dict(self.known),
            "inconclusive": self.inconclusive,
            "extra": self.extra,
            "wall_s": round(self.elapsed(), 2),
        }


def load_prop(prop_id):
    return importlib.import_module(f"vf.props.{prop_id.lower()}")


def child_env(hashseed="0", extra_path=()):
    env = dict(os.environ)
    env["PYTHONHASHSEED"] = str(hashseed)
    env["PYTHONDONTWRITEBYTECODE"] = "1"
    env["XSDATA_VERIF"] = "1"
    pp = [str(ROOT), *map(str, extra_path), str(REPO)]
    env["PYTHONPATH"] = os.pathsep.join(pp)
    env.setdefault("PYTHONWARNINGS", "ignore::DeprecationWarning")
    return env


def run_shard_main(argv):
    """Entry point of a shard subprocess."""
    prop_id, tier, seed, shard, nshards, budget, out = argv
    mod = load_prop(prop_id)
    ctx = ShardCtx(prop_id, tier, int(seed), int(shard), int(nshards), float(budget))
    try:
        mod.run_shard(ctx)
    except BaseException as e:  # harness failure: never a property verdict
        ctx.inconc(f"shard {shard} harness exception: {type(e).__name__}: {e}\n" + traceback.format_exc()[-1500:])
    from array import array

    with open(out + ".fp", "wb") as f:
        array("Q", sorted(ctx.fingerprints)).tofile(f)
    with open(out, "w") as f:
        json.dump(ctx.result(), f)


def load_known():
    p = ROOT / "known_findings.json"
    if not p.exists():
        return {}
    data = json.loads(p.read_text())
    return {e["key"]: e for e in data.get("findings", [])}


def main(prop_id, tier="quick", seed=0, replay=None):
    mod = load_prop(prop_id)
    t0 = time.monotonic()
    evidence_path = Path(os.environ.get("VERIF_EVIDENCE_DIR", ROOT / "evidence")) / f"{prop_id}.json"
    evidence_path.parent.mkdir(exist_ok=True, parents=True)

    if replay:
        ctx = ShardCtx(prop_id, tier, seed, 0, 1, 600.0, replaying=True)
        wit = json.loads(Path(replay).read_text())
        mod.replay(wit.get("witness", wit), ctx)
        if ctx.violations:
            for v in ctx.violations:
                print(f"replay: {v['key']}: {v['summary']}")
            print(f"VIOLATION property={prop_id} replay={replay}")
            return 1
        print(f"replay: property {prop_id} held on {replay}")
        return 0

    nshards = getattr(mod, "SHARDS", {}).get(tier, min(14, NCPU))
    budget = getattr(mod, "TIME", {"quick": 40, "thorough": 600})[tier]
    watchdog = budget * 3 + 120
    hashseed = getattr(mod, "HASHSEED", "0")
    extra_path = getattr(mod, "EXTRA_PATH", ())
    tmpdir = Path(tempfile.mkdtemp(prefix="xsdata-verif-run-"))
    procs = []
    try:
        for s in range(nshards):
            out = tmpdir / f"shard{s}.json"
            cmd = [PY, "-X", "faulthandler", "-m", "vf.core", "--shard", prop_id, tier, str(seed), str(s), str(nshards), str(budget), str(out)]
            p = subprocess.Popen(cmd, cwd=str(ROOT), env=child_env(hashseed, extra_path), stdout=subprocess.PIPE, stderr=subprocess.PIPE, text=True)
            procs.append((s, p, out))
        results, problems = [], []
        for s, p, out in procs:
            try:
                so, se = p.communicate(timeout=max(1, watchdog - (time.monotonic() - t0)))
            except subprocess.TimeoutExpired:
                p.kill()
                so, se = p.communicate()
                problems.append(f"shard {s} watchdog ({watchdog}s) fired")
                continue
            if p.returncode != 0 or not out.exists():
                problems.append(f"shard {s} exited {p.returncode}: {se[-800:]}")
                continue
            r = json.loads(out.read_text())
            r["fp_array"] = read_fps(str(out) + ".fp")
            results.append(r)
    finally:
        for _, p, _ in procs:
            if p.poll() is None:
                p.kill()
        import shutil

        shutil.rmtree(tmpdir, ignore_errors=True)

    return finish(mod, prop_id, tier, seed, results, problems, t0, evidence_path)


def read_fps(path):
    from array import array

    a = array("Q")
    try:
        with open(path, "rb") as f:
            a.frombytes(f.read())
    except OSError:
        pass
    return a


def count_distinct(arrays):
    """Exact number of distinct 64-bit fingerprints over sorted arrays (k-way merge)."""
    import heapq

    n, last = 0, -1
    for v in heapq.merge(*arrays):
        if v != last:
            n += 1
            last = v
    return n


def finish(mod, prop_id, tier, seed, results, problems, t0, evidence_path):
    evaluations = sum(r["evaluations"] for r in results)
    n_distinct = count_distinct([r.pop("fp_array") for r in results])
    features, hooks, dropped, known, viol_counts = Counter(), Counter(), Counter(), Counter(), Counter()
    samples, violations, inconclusive, extra = [], [], list(problems), {}
    for r in results:
        features.update(r["features"])
        hooks.update(r["hooks"])
        dropped.update(r["dropped"])
        known.update(r["known"])
        viol_counts.update(r.get("viol_counts", {}))
        violations.extend(r["violations"])
        inconclusive.extend(r["inconclusive"])
        for k, v in r.get("extra", {}).items():
            if isinstance(v, (int, float)):
                extra[k] = extra.get(k, 0) + v
            elif isinstance(v, list):
                extra.setdefault(k, [])
                extra[k] = (extra[k] + v)[:50]
            else:
                extra[k] = v
    for r in results:
        for s in r["samples"]:
            if len(samples) < 5:
                samples.append(s)

    min_distinct = getattr(mod, "MIN_DISTINCT", {"quick": 2, "thorough": 2})[tier]
    if n_distinct < min_distinct:
        inconclusive.append(f"only {n_distinct} distinct non-trivial cases (< {min_distinct})")
    for h in getattr(mod, "REQUIRED_HOOKS", ()):
        if hooks.get(h, 0) == 0:
            inconclusive.append(f"deciding hook never evaluated: {h}")
    for f_ in getattr(mod, "REQUIRED_FEATURES", ()):
        if features.get(f_, 0) == 0:
            inconclusive.append(f"required feature never exercised: {f_}")

    known_list = load_known()
    rc = 0
    new_violations = []
    printed_known = set()
    # dedicated probes report re-confirmed known mechanisms through ctx.known_finding
    for key, n in sorted(known.items()):
        e = known_list.get(key)
        if e and e.get("status") == "known":
            if key not in printed_known:
                print(f"KNOWN-FINDING: property={prop_id} {key}: {e.get('summary', '')} (re-confirmed {n}x)")
                printed_known.add(key)
        else:
            # a probe says a mechanism reproduces but the committed file does not list it as open
            new_violations.append({"key": key, "summary": f"mechanism {key} reproduces but is not listed as an open known finding", "witness": {"probe": key}, "known_key": None})
    for v in violations:
        kk = v.get("known_key")
        e = known_list.get(kk) if kk else None
        if e and e.get("status") == "known" and e.get("property") == prop_id:
            if kk not in printed_known:
                print(f"KNOWN-FINDING: property={prop_id} {kk}: {e.get('summary', '')}")
                printed_known.add(kk)
            continue
        new_violations.append(v)

    replay_dir = Path(os.environ.get("VERIF_REPLAY_DIR", ROOT / "replays")) / prop_id
    seen_keys = set()
    for v in new_violations:
        if v["key"] in seen_keys:
            continue
        seen_keys.add(v["key"])
        replay_dir.mkdir(parents=True, exist_ok=True)
        name = fp(v["key"], v["witness"]) + ".json"
        path = replay_dir / name
        path.write_text(json.dumps({"property": prop_id, "key": v["key"], "summary": v["summary"], "seed": seed, "tier": tier, "witness": v["witness"]}, indent=1))
        if len(seen_keys) <= 40:
            print(f"violation: {v['key']}: {v['summary'][:600]}")
        print(f"VIOLATION property={prop_id} replay={path}")
        rc = 1

    wall = round(time.monotonic() - t0, 2)
    coverage = {
        "evaluations": evaluations,
        "distinct_nontrivial": n_distinct,
        "rule": mod.RULE,
        "samples": samples if samples else ["<no sample recorded>"],
        "features": dict(sorted(features.items())),
        "hook_evaluations": dict(sorted(hooks.items())),
        "dropped_by_admissibility_rule": dict(sorted(dropped.items())),
        "known_findings_reconfirmed": dict(sorted(known.items())),
        "violation_keys": dict(sorted(viol_counts.items())),
        "shards": len(results),
        "inconclusive_reasons": inconclusive,
    }
    coverage.update(extra)
    if hasattr(mod, "coverage_extra"):
        coverage.update(mod.coverage_extra(coverage, tier))
    evidence = {
        "property_id": prop_id,
        "tier": tier,
        "seed": seed,
        "level": mod.LEVEL,
        "coverage": coverage,
        "assumptions": list(mod.ASSUMPTIONS),
        "wall_s": wall,
        "violations": len(seen_keys),
    }
    evidence_path.write_text(json.dumps(evidence, indent=1, default=repr))

    if rc == 0 and inconclusive:
        for r in inconclusive[:10]:
            print(f"INCONCLUSIVE property={prop_id} reason={r[:1500]}")
        rc = 2
    status = {0: "held on what was observed", 1: "VIOLATED", 2: "inconclusive"}[rc]
    print(f"{prop_id} [{tier} seed={seed}] {status}: {evaluations} evaluations, {n_distinct} distinct non-trivial, {len(results)} shards, {wall}s")
    return rc


if __name__ == "__main__":
    if len(sys.argv) > 1 and sys.argv[1] == "--shard":
        run_shard_main(sys.argv[2:])
    else:
        print("use ./check", file=sys.stderr)
        sys.exit(64)
