"""Command line of the verification framework (see ../check)."""

import argparse
import os
import sys

from vf import core


def setup():
    """Offline setup: nothing is fetched. Verifies interpreter + repository import, and
    the stand-in conformance self-test when the shims are present."""
    import subprocess

    rc = subprocess.call([core.PY, "-c", "import xsdata, lxml; print('xsdata', xsdata.__version__ if hasattr(xsdata,'__version__') else 'ok')"], env=core.child_env())
    if rc:
        return rc
    selftest = core.SHIMS / "selftest.py"
    if selftest.exists():
        rc = subprocess.call([core.PY, str(selftest)], env=core.child_env(extra_path=[core.SHIMS]))
    return rc


def main(argv=None):
    ap = argparse.ArgumentParser()
    ap.add_argument("prop", nargs="?")
    ap.add_argument("--tier", default=os.environ.get("VERIF_TIER", "quick"), choices=["quick", "thorough"])
    ap.add_argument("--seed", type=int, default=int(os.environ.get("VERIF_SEED", "0")))
    ap.add_argument("--replay")
    ap.add_argument("--setup", action="store_true")
    a = ap.parse_args(argv)
    if a.setup:
        return setup()
    if not a.prop:
        ap.error("property id required")
    return core.main(a.prop.upper(), a.tier, a.seed, a.replay)


if __name__ == "__main__":
    sys.exit(main())
