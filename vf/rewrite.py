"""Meaning-preserving XML rewriter (harness-side writer with full control over spelling).

A document is loaded into a tiny DOM (from strict libxml2, comments/PIs kept) and written back by
an own emitter with seeded options: prefix choice per namespace (renaming, default-namespace use,
shadowing in subtrees, redundant redeclarations), attribute order, whitespace between the children
of element-only content, comments/PIs between children, before/after the root and inside character
data, CDATA sections and decimal/hex character references, surrounding whitespace of marked
non-string leaves, character encodings, XInclude splitting.

`same_meaning(a, b)` proves to the harness that the rewrite preserved the infoset (QName-valued
leaves and xsi:type resolved through the in-scope prefixes).
"""

from __future__ import annotations

from lxml import etree

from vf import xmlkit
from vf.xmlkit import XSI_TYPE

XI = "http://www.w3.org/2001/XInclude"


class E:
    __slots__ = ("ns", "local", "attrs", "items", "qname_text", "pad_ok", "qname_attrs", "pad_attrs", "_orig_scope", "info")

    def __init__(self, ns, local):
        self.ns = ns
        self.local = local
        self.attrs = []  # [(ns, local, value)]
        self.items = []  # str | E | ("comment", s) | ("pi", target, data)
        self.qname_text = None  # (uri, local) when the text content is a QName value (or list of)
        self.pad_ok = False  # text content is a non-string leaf: surrounding whitespace is insignificant
        self.qname_attrs = {}  # (ns, local) -> [(uri, local), ...]
        self.pad_attrs = set()
        self._orig_scope = None
        self.info = {}  # free-form marks from the reference model (cls, declared leaf types, ...)


def split(tag):
    if tag[0] == "{":
        u, l = tag[1:].split("}", 1)
        return u, l
    return None, tag


def load(data) -> E:
    root = xmlkit.parse_strict(data)
    return _load(root)


def _load(el) -> E:
    ns, local = split(el.tag)
    e = E(ns, local)
    for k, v in el.attrib.items():
        ans, al = split(k)
        e.attrs.append((ans, al, v))
        if (ans, al) == (xmlkit.XSI, "type"):
            pfx, _, loc = v.strip().rpartition(":")
            e.qname_attrs[(ans, al)] = [(el.nsmap.get(pfx or None), loc)]
    if el.text:
        e.items.append(el.text)
    for ch in el:
        if isinstance(ch.tag, str):
            e.items.append(_load(ch))
        elif ch.tag is etree.Comment:
            e.items.append(("comment", ch.text or ""))
        elif ch.tag is etree.PI:
            e.items.append(("pi", ch.target, ch.text or ""))
        if ch.tail:
            e.items.append(ch.tail)
    return e


def mark_leaves(e: E, exp, nsmap_stack=None):
    """Use the reference infoset (vf.ir.XEl) to mark which leaves are QName-valued / non-string."""
    from vf import ir

    kids = [x for x in e.items if isinstance(x, E)]
    ekids = [x for x in exp.content if isinstance(x, ir.XEl)]
    leaves = [x for x in exp.content if isinstance(x, ir.XLeaf)]
    e.info["cls"] = exp.cls
    e.info["nil"] = exp.nil
    e.info["wrapper"] = getattr(exp, "wrapper", False)
    e.info["attr_types"] = {}
    if leaves and not kids and len(exp.content) == 1:
        leaf = leaves[0]
        e.info["leaf_types"] = [(t.kind, t.name) for t in leaf.types]
        e.info["leaf_any"] = leaf.any_type
        tn = {type(v).__name__ for v in (leaf.value if leaf.tokens else [leaf.value])}
        vals = leaf.value if leaf.tokens else [leaf.value]
        import enum

        vals = [v.value if isinstance(v, enum.Enum) else v for v in vals]
        tn = {type(v).__name__ for v in vals}
        if tn and "str" not in tn and "bytes" not in tn or (tn == {"bytes"}):
            e.pad_ok = not leaf.any_type or True
        if "QName" in tn:
            e.qname_text = True
    for (ans, al, v) in e.attrs:
        key = ir.clark(ans, al)
        want = exp.attrs.get(key)
        if isinstance(want, ir.XLeaf):
            import enum

            e.info["attr_types"][(ans, al)] = [(t.kind, t.name) for t in want.types]
            e.info.setdefault("attr_tokens", {})[(ans, al)] = bool(want.tokens)
            vals = want.value if want.tokens else [want.value]
            vals = [x.value if isinstance(x, enum.Enum) else x for x in vals]
            tn = {type(x).__name__ for x in vals}
            if "QName" in tn:
                e.qname_attrs[(ans, al)] = True
            if "str" not in tn:
                e.pad_attrs.add((ans, al))
        elif isinstance(want, str) and want.startswith("{"):
            e.qname_attrs[(ans, al)] = True  # wildcard attribute value re-prefixed by xsdata
    if len(kids) == len(ekids):
        for k, x in zip(kids, ekids):
            mark_leaves(k, x)


# ----------------------------------------------------------------------------- emitter
class Opts:
    def __init__(self, rng, level=2):
        self.rng = rng
        self.rename = rng.random() < 0.7
        self.use_default = rng.random() < 0.5
        self.shadow = rng.random() < 0.3
        self.redeclare = rng.random() < 0.3
        self.permute_attrs = rng.random() < 0.7
        self.ws = rng.random() < 0.6
        self.comments = rng.random() < 0.5
        self.pis = rng.random() < 0.4
        self.pi_in_chardata = rng.random() < 0.3
        self.cdata = rng.random() < 0.5
        self.charrefs = rng.random() < 0.5
        self.pad = rng.random() < 0.5
        self.misc_around_root = rng.random() < 0.4
        self.single_quotes = rng.random() < 0.3
        self.applied = set()


def esc_text(s, o: Opts, ascii_only=False, latin1=False):
    out = []
    rng = o.rng
    i = 0
    if o.cdata and s and "]]>" not in s and rng.random() < 0.5 and all(xmlkit.lx.is_xml_char(c) for c in s) and not ascii_only and not latin1 and "\r" not in s:
        o.applied.add("cdata")
        k = rng.randrange(len(s) + 1)
        head, tail = s[:k], s[k:]
        return esc_text(head, NoCdata(o)) + f"<![CDATA[{tail}]]>" if tail else esc_text(head, NoCdata(o))
    for ch in s:
        if ch == "&":
            out.append("&amp;")
        elif ch == "<":
            out.append("&lt;")
        elif ch == ">":
            out.append("&gt;")
        elif ch == "\r":
            out.append("&#13;")
        elif (ascii_only and ord(ch) > 127) or (latin1 and ord(ch) > 255):
            out.append(f"&#{ord(ch)};")
        elif o.charrefs and rng.random() < 0.15 and ch not in "\n\t ":
            o.applied.add("charref")
            out.append(f"&#{ord(ch)};" if rng.random() < 0.5 else f"&#x{ord(ch):X};")
        else:
            out.append(ch)
    return "".join(out)


def plain_opts(rng):
    """Emitter options with every rewrite switched off (used when only the DOM was edited)."""
    o = Opts(rng)
    for k in ("rename", "use_default", "shadow", "redeclare", "permute_attrs", "ws", "comments", "pis", "pi_in_chardata", "cdata", "charrefs", "pad", "misc_around_root", "single_quotes"):
        setattr(o, k, False)
    return o


class NoCdata:
    def __init__(self, o):
        self.__dict__.update(o.__dict__)
        self.cdata = False


def esc_attr(s, o: Opts, quote, ascii_only=False, latin1=False):
    out = []
    rng = o.rng
    for ch in s:
        if ch == "&":
            out.append("&amp;")
        elif ch == "<":
            out.append("&lt;")
        elif ch == quote:
            out.append("&quot;" if quote == '"' else "&apos;")
        elif ch in "\r\n\t":
            out.append(f"&#{ord(ch)};")
        elif (ascii_only and ord(ch) > 127) or (latin1 and ord(ch) > 255):
            out.append(f"&#{ord(ch)};")
        elif o.charrefs and rng.random() < 0.15 and ch != " ":
            o.applied.add("charref-attr")
            out.append(f"&#x{ord(ch):x};")
        else:
            out.append(ch)
    return "".join(out)


PREFIX_POOL = ["a", "b", "c", "p", "q", "ns0", "ns1", "ns2", "x1", "é", "_u", "tns", "xs", "w"]


def emit_doc(root: E, o: Opts, encoding="utf-8", bom=False, declaration=True):
    """-> bytes"""
    ascii_only = encoding.lower() == "us-ascii"
    latin1 = encoding.lower() == "iso-8859-1"
    parts = []
    if declaration:
        parts.append(f'<?xml version="1.0" encoding="{encoding}"?>')
    if o.misc_around_root:
        o.applied.add("misc-around-root")
        parts.append("\n<!-- before -->\n<?vf before?>\n")
    parts.append(emit(root, o, {None: None, "xml": xmlkit.XMLNS}, ascii_only, latin1, top=True))
    if o.misc_around_root:
        parts.append("\n<!-- after --><?vf after?>\n")
    text = "".join(parts)
    if encoding.lower().startswith("utf-16"):
        data = text.encode(encoding)  # python adds a BOM for plain "utf-16"
    else:
        data = text.encode("ascii" if ascii_only else ("latin-1" if latin1 else "utf-8"))
        if bom and encoding.lower() == "utf-8":
            data = b"\xef\xbb\xbf" + data
    return data


def emit(e: E, o: Opts, scope, ascii_only, latin1, top=False):
    rng = o.rng
    scope = dict(scope)
    decls = []
    used = {e.ns} | {a[0] for a in e.attrs}
    # namespaces needed by QName-valued content / attributes are resolved through qualified forms below
    inv = {}

    used_here = set()  # prefixes this element's own name/attributes/values rely on: never rebound here

    def prefix_for(uri, attr=False, for_value=False):
        """Find or declare a prefix for uri in the current scope (None uri = no namespace)."""
        if uri is None:
            if not attr and scope.get(None):
                scope[None] = None
                decls.append((None, ""))
                o.applied.add("undeclare-default")
            if not attr:
                used_here.add(None)
            return None
        if uri == xmlkit.XMLNS:
            return "xml"
        cands = [p for p, u in scope.items() if u == uri and (p is not None or not attr)]
        if cands and not (o.redeclare and rng.random() < 0.2):
            if o.shadow and rng.random() < 0.15:
                pass
            else:
                p = rng.choice(cands) if o.rename else cands[0]
                used_here.add(p)
                return p
        # declare a new one
        declared = [d[0] for d in decls]
        if not attr and o.use_default and rng.random() < 0.5 and None not in declared and None not in used_here and not _unqualified_needed(e):
            scope[None] = uri
            decls.append((None, uri))
            o.applied.add("default-namespace")
            used_here.add(None)
            return None
        pool = [p for p in PREFIX_POOL if p not in declared and p not in used_here and (p not in scope or scope[p] == uri or o.shadow)]
        if ascii_only or latin1:
            pool = [p for p in pool if p.isascii()]
        if not pool:
            n = 0
            while f"g{n}" in scope or f"g{n}" in declared:
                n += 1
            pool = [f"g{n}"]
        p = rng.choice(pool)
        if p in scope and scope[p] != uri:
            o.applied.add("prefix-shadowing")
        scope[p] = uri
        decls.append((p, uri))
        used_here.add(p)
        o.applied.add("prefix-renamed")
        return p

    name_pfx = prefix_for(e.ns)
    attrs = []
    items = list(e.attrs)
    if o.permute_attrs and len(items) > 1:
        rng.shuffle(items)
        o.applied.add("attribute-order")
    rendered_attrs = []
    for ans, al, v in items:
        apfx = prefix_for(ans, attr=True) if ans else None
        rendered_attrs.append((apfx, ans, al, v))
    # QName-valued attribute values / text: re-spell with prefixes valid in *this* scope
    def respell_qnames(v, original_scope_lookup):
        out = []
        for tok in v.split():
            pfx, _, loc = tok.rpartition(":")
            uri = original_scope_lookup(pfx or None)
            if uri is None:
                if scope.get(None):
                    return None  # cannot express an unqualified QName under a default namespace
                out.append(loc)
            else:
                p = prefix_for(uri, attr=True)  # a real prefix keeps it unambiguous
                out.append(f"{p}:{loc}")
        return " ".join(out)

    quote = "'" if o.single_quotes and rng.random() < 0.5 else '"'
    name = f"{name_pfx}:{e.local}" if name_pfx else e.local
    attr_strs = []
    for apfx, ans, al, v in rendered_attrs:
        if e.qname_attrs.get((ans, al)) and e._orig_scope is not None:
            nv = respell_qnames(v, e._orig_scope.get)
            if nv is not None:
                v = nv
        if (ans, al) in e.pad_attrs and o.pad and rng.random() < 0.5:
            v = rng.choice([" ", "  ", "\t"]) + v + rng.choice([" ", "\n", ""])
            o.applied.add("pad-attribute")
        if ans == "http://www.w3.org/2001/XMLSchema-instance" and al == "nil" and o.pad and v in ("true", "false") and rng.random() < 0.4:
            # xsi:nil is a xs:boolean: 1/0 and surrounding whitespace are the same value
            v = rng.choice([{"true": "1", "false": "0"}[v], f" {v}", f"{v}\n", f" {'1' if v == 'true' else '0'} "])
            o.applied.add("respell-xsi-nil")
        an = f"{apfx}:{al}" if apfx else al
        attr_strs.append(f"{an}={quote}{esc_attr(v, o, quote, ascii_only, latin1)}{quote}")
    # content
    kids = [x for x in e.items if isinstance(x, E)]
    body = []
    text_items = [x for x in e.items if isinstance(x, str)]
    element_only = bool(kids) and all(not t.strip(" \t\r\n") for t in text_items)
    content_items = list(e.items)
    if e.qname_text and not kids and len(text_items) == 1 and e._orig_scope is not None:
        nv = respell_qnames(text_items[0], e._orig_scope.get)
        if nv is not None:
            content_items = [nv]
    for idx, it in enumerate(content_items):
        if isinstance(it, E):
            if element_only and o.ws and rng.random() < 0.6:
                body.append(rng.choice(["\n", "  ", "\n\t", " \n "]))
                o.applied.add("whitespace-between-children")
            if o.comments and rng.random() < 0.25:
                body.append("<!-- c -->")
                o.applied.add("comment-between-children")
            if o.pis and rng.random() < 0.2 and element_only:
                body.append("<?vf between?>")
                o.applied.add("pi-between-children")
            body.append(emit(it, o, scope, ascii_only, latin1))
        elif isinstance(it, str):
            t = it
            if e.pad_ok and not kids and o.pad and rng.random() < 0.6:
                t = rng.choice([" ", "\n  ", "\t"]) + t + rng.choice([" ", "\n", "  "])
                o.applied.add("pad-non-string-leaf")
            if len(t) > 1 and (o.comments or o.pi_in_chardata) and rng.random() < 0.3:
                k = rng.randrange(1, len(t))
                # one marker, or a run of adjacent ones with no text between them (seeded change C09-r4-1: a tree walk that
                # stops joining text at the first marker without a tail)
                run = []
                for _ in range(rng.choice([1, 1, 1, 2, 2, 3])):
                    if o.pi_in_chardata and (not o.comments or rng.random() < 0.5):
                        run.append("<?vf inside?>")
                        o.applied.add("pi-inside-chardata")
                    else:
                        run.append("<!--in-->")
                        o.applied.add("comment-inside-chardata")
                if len(run) > 1:
                    o.applied.add("adjacent-markers-inside-chardata")
                body.append(esc_text(t[:k], o, ascii_only, latin1) + "".join(run) + esc_text(t[k:], o, ascii_only, latin1))
            else:
                body.append(esc_text(t, o, ascii_only, latin1))
        elif it[0] == "comment":
            body.append(f"<!--{it[1]}-->")
        else:
            body.append(f"<?{it[1]} {it[2]}?>")
    if element_only and o.ws and kids and rng.random() < 0.5:
        body.append("\n")
    decl_strs = []
    for p, u in decls:
        decl_strs.append(f'xmlns:{p}="{esc_attr(u, NoRefs(o), chr(34))}"' if p else f'xmlns="{esc_attr(u, NoRefs(o), chr(34))}"')
    if o.redeclare and rng.random() < 0.3:
        for p, u in list(scope.items()):
            if p and p != "xml" and u and (p, u) not in decls and rng.random() < 0.5:
                decl_strs.append(f'xmlns:{p}="{esc_attr(u, NoRefs(o), chr(34))}"')
                o.applied.add("redundant-redeclaration")
                break
    all_attrs = decl_strs + attr_strs
    if o.permute_attrs:
        rng.shuffle(all_attrs)
    head = name + ("".join(" " + a for a in all_attrs))
    if o.ws and rng.random() < 0.2:
        head += rng.choice([" ", "\n"])
    inner = "".join(body)
    if not inner and o.cdata and rng.random() < 0.25:
        inner = "<![CDATA[]]>"  # an empty CDATA section is no character data: the same infoset as an empty element
        o.applied.add("empty-cdata")
    if not inner and rng.random() < 0.5:
        return f"<{head}/>"
    return f"<{head}>{inner}</{name}{' ' if o.ws and rng.random() < 0.1 else ''}>"


class NoRefs:
    def __init__(self, o):
        self.__dict__.update(o.__dict__)
        self.charrefs = False


def _unqualified_needed(e: E):
    """Would declaring a default namespace on e change the meaning of anything below that has no
    namespace? Unqualified descendants get xmlns="" from the emitter, so only QName values matter
    (handled by respell_qnames returning None -> kept as is). Conservative: never when e has
    QName-valued content."""
    return bool(e.qname_text) or bool(e.qname_attrs)


def attach_scopes(e: E, el):
    """Remember the original in-scope prefixes of every element (needed to re-spell QName values)."""
    e._orig_scope = dict(el.nsmap)
    kids = [x for x in e.items if isinstance(x, E)]
    ekids = [c for c in el if isinstance(c.tag, str)]
    for k, c in zip(kids, ekids):
        attach_scopes(k, c)


def load_with_scopes(data):
    root = xmlkit.parse_strict(data)
    e = _load(root)
    attach_scopes(e, root)
    return e


# ----------------------------------------------------------------------------- equivalence proof
def meaning(el, marks: E):
    """Canonical infoset with QName-valued leaves resolved; comments/PIs dropped; whitespace-only
    text next to child elements dropped; marked non-string leaves stripped."""
    kids_m = [x for x in marks.items if isinstance(x, E)]
    node_kids = [c for c in el if isinstance(c.tag, str)]
    n = xmlkit.infoset(el)

    def resolve(v, nsmap):
        out = []
        for tok in v.split():
            pfx, _, loc = tok.rpartition(":")
            out.append((nsmap.get(pfx or None), loc))
        return tuple(out)

    attrs = {}
    for k, v in n.attrs.items():
        ans, al = split(k)
        if marks.qname_attrs.get((ans, al)):
            attrs[k] = ("qname", resolve(v, el.nsmap))
        elif (ans, al) in marks.pad_attrs:
            attrs[k] = v.strip(" \t\r\n")
        elif (ans, al) == (xmlkit.XSI, "nil") and v.strip(" \t\r\n") in ("true", "false", "1", "0"):
            attrs[k] = ("bool", v.strip(" \t\r\n") in ("true", "1"))  # xs:boolean value space
        else:
            attrs[k] = v
    has_kids = bool(node_kids)
    segs = [n.text] + [c.tail for c in n.children]
    if has_kids:
        segs = ["" if not s.strip(" \t\r\n") else s for s in segs]
    elif marks.qname_text:
        segs = [("qname", resolve(segs[0], el.nsmap))]
    elif marks.pad_ok:
        segs = [segs[0].strip(" \t\r\n")]
    kids = tuple(meaning(c, m) for c, m in zip(node_kids, kids_m)) if len(kids_m) == len(node_kids) else ("child-count", len(node_kids))
    return (n.tag, tuple(sorted(attrs.items(), key=lambda kv: kv[0])), tuple(segs), kids)


def same_meaning(original: bytes, rewritten: bytes, marks: E):
    try:
        a = xmlkit.parse_strict(original)
        b = etree.fromstring(rewritten, xmlkit.strict_parser())
    except Exception as e:  # noqa: BLE001
        return False, f"rewritten document does not parse: {e}"
    ma, mb = meaning(a, marks), meaning(b, marks)
    return (ma == mb), (None if ma == mb else "infoset differs")
