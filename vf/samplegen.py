"""Sample-document generators: a hidden *regular* model from which 1-4 XML or JSON sample documents
are drawn (C13), and irregular sample sets (C07). Canonical spellings come from the harness's own
writers (vf/lexical.py), never from xsdata.
"""

from __future__ import annotations

import json
from dataclasses import dataclass, field

from lxml import etree

from vf import lexical as lx
from vf.xsdgen import HOSTILE_NAMES, PLAIN_NAMES, ClassNames

LEAF_TYPES = ["str", "int", "bool", "float", "date", "time", "dateTime", "duration", "period", "code"]


def leaf_value(rng, t):
    """A canonically spelled value of an inferable type (stable under type inference order)."""
    if t == "str":
        # (strings that look like numbers, booleans or dates too: a repeated child may hold "12" next to "A7")
        return rng.choice(["alpha", "two words", "q&a", "é", "a<b", "x-1", "Hello World", "n/a", "12", "A7", "true", "1.5", "2020-01-01", "7"])
    if t == "code":
        # strings (product codes, dial prefixes ...) that a number parser would accept but that are not the canonical
        # spelling of that number: they are strings, and canonically spelled ones
        return rng.choice(["007", "012", "+5", "1e2", ".5", "00", "1.", "1_000", "0x10", "+1.50"])
    if t == "int":
        return str(rng.choice([0, 1, -1, 7, 42, 65536, -128, 2**40, 10**20]))
    if t == "bool":
        return rng.choice(["true", "false"])
    if t == "float":
        return rng.choice(["1.5", "-2.25", "0.5", "100.0", "1E22", "1E-07", "3.75"])
    y, mo = rng.choice([1999, 2000, 2024]), rng.randrange(1, 13)
    d = rng.randrange(1, lx.days_in_month(y, mo) + 1)
    tz = rng.choice(["", "Z", "+01:00", "-05:30"])
    h, mi, s = rng.randrange(24), rng.randrange(60), rng.randrange(60)
    frac = rng.choice(["", ".500", ".000123", ".000000001"])
    if t == "date":
        return f"{y:04d}-{mo:02d}-{d:02d}{tz}"
    if t == "time":
        return f"{h:02d}:{mi:02d}:{s:02d}{frac}{tz}"
    if t == "dateTime":
        return f"{y:04d}-{mo:02d}-{d:02d}T{h:02d}:{mi:02d}:{s:02d}{frac}{tz}"
    if t == "duration":
        return rng.choice(["P1Y", "PT1M", "P1Y2M3DT4H5M6S", "-P3D", "PT0.5S"])
    if t == "period":
        return rng.choice(["2001-10", "--05", "--02-29", "---31", "2001-10Z", "--11-04:00"])
    raise KeyError(t)


@dataclass
class SNode:
    name: str
    ns: str | None
    kind: str  # leaf | container
    leaf_type: str = "str"
    attrs: list = field(default_factory=list)  # (name, ns, type, optional)
    children: list = field(default_factory=list)  # (SNode, min, max)
    interleave: bool = False
    n_interleaved: int = 0
    mixed: bool = False
    nillable: bool = False
    leaf_attrs: bool = False
    empty_arrays: list = field(default_factory=list)  # JSON: keys that hold [] wherever they occur


class HiddenModel:
    def __init__(self, rng, salt, hostile=False):
        self.rng = rng
        self.salt = salt
        self.hostile = hostile
        self.used = set()
        self.class_names = ClassNames()
        self.allow_known_findings = False
        self.nss = [None, f"urn:samples:{salt}:a", f"urn:samples:{salt}:b"][: rng.choice([1, 2, 3])]
        self.root = self.node(0, rng.choice(self.nss))

    def name(self):
        rng = self.rng
        pool = HOSTILE_NAMES if self.hostile and rng.random() < 0.6 else PLAIN_NAMES
        for _ in range(80):
            n = rng.choice(pool)
            if not lx.is_ncname(n):
                n = "n" + n
            if n.lower() not in {u.lower() for u in self.used} and self.class_names.ok(n):
                self.used.add(n)
                return n
        k = 0
        while f"e{k}" in self.used or not self.class_names.ok(f"e{k}"):
            k += 1
        self.used.add(f"e{k}")
        return f"e{k}"

    def node(self, depth, ns, force_container=None):
        rng = self.rng
        container = force_container if force_container is not None else (depth < 3 and rng.random() < (0.9 if depth == 0 else 0.35))
        n = SNode(self.name(), ns, "container" if container else "leaf")
        if not container:
            n.leaf_type = rng.choice(LEAF_TYPES)
            if rng.random() < 0.15:
                n.leaf_attrs = True
                n.attrs = self.attrs(always=True)
            if rng.random() < 0.25 and (self.allow_known_findings or any(not o for _, _, _, o in n.attrs)):
                # xsi:nil only on leaves that carry an attribute in every occurrence (classes everywhere): a bare leaf that
                # is nil in one place becomes a union of a primitive and an empty class, which loses following text in mixed
                # content and can reject values (open known finding C13/leaf-with-optional-attribute-in-mixed-content)
                n.nillable = True
            return n
        n.attrs = self.attrs()
        for _ in range(rng.randrange(1, 7)):
            cns = ns if rng.random() < 0.75 else rng.choice(self.nss)
            ch = self.node(depth + 1, cns)
            mn, mx = rng.choice([(1, 1), (1, 1), (0, 1), (0, 1), (0, 3), (1, 3), (2, 2)])
            if mn == 0 and not self.allow_known_findings:
                ch.nillable = False  # an absent optional nillable element comes back as nil (same mechanism as C02/optional-nillable-absent-becomes-nil)
            n.children.append((ch, mn, mx))
        reps = [c for c in n.children if c[2] > 1]
        if len(reps) >= 2 and rng.random() < 0.3:
            n.interleave = True
            # the interleaved children form one contiguous block (a b a b ...) in every sample: a repeated
            # group with the same number of occurrences for each of its members
            mn, mx = reps[0][1], reps[0][2]
            n.children = [(c[0], mn, mx) for c in reps] + [c for c in n.children if c[2] <= 1]
            n.n_interleaved = len(reps)
        if not self.allow_known_findings and not any(mn >= 1 for _, mn, _ in n.children) and not any(not o for _, _, _, o in n.attrs):
            # an occurrence without any attribute or child would look like a bare leaf (open known finding
            # C13/element-sometimes-bare-becomes-union): keep one child mandatory
            if n.interleave:
                n.children[: n.n_interleaved] = [(c, 1, max(mx, 1)) for c, _, mx in n.children[: n.n_interleaved]]
            else:
                ch, _, mx = n.children[0]
                n.children[0] = (ch, 1, max(mx, 1))
        if rng.random() < 0.08:
            n.mixed = True
        return n

    def attrs(self, always=False):
        """always: a leaf with attributes needs one attribute that is present in every occurrence, otherwise the bare
        occurrences are read as a primitive and the others as a class (open known finding
        C13/element-sometimes-bare-becomes-union, probe in vf/props/c13.py)."""
        rng = self.rng
        out = []
        used = set()
        if always and not self.allow_known_findings:
            nm = rng.choice(["id", "code", "kind"])
            used.add(nm)
            out.append((nm, None, rng.choice(LEAF_TYPES), False))
        for _ in range(rng.choice([0, 0, 1, 2])):
            nm = rng.choice(["id", "lang", "size", "code", "kind", "a-b", "n.m"] + (HOSTILE_NAMES[:30] if self.hostile else []))
            if not lx.is_ncname(nm) or nm in used:
                continue
            used.add(nm)
            out.append((nm, rng.choice([None, None, self.nss[-1]]), rng.choice(LEAF_TYPES), rng.random() < 0.4))
        return out

    # ---- XML documents
    def xml_document(self, full=False):
        nsmap = {f"n{i}": u for i, u in enumerate(self.nss) if u}
        root = self.build(self.root, nsmap, full, top=True)
        return etree.tostring(root, encoding="UTF-8")

    def q(self, ns, name):
        return f"{{{ns}}}{name}" if ns else name

    def build(self, n: SNode, nsmap, full, top=False):
        rng = self.rng
        el = etree.Element(self.q(n.ns, n.name), nsmap=nsmap if top else None)
        for nm, ans, t, optional in n.attrs:
            if full or not optional or rng.random() < 0.6:
                el.set(self.q(ans, nm), leaf_value(rng, t))
        if n.kind == "leaf":
            if n.nillable and not full and rng.random() < 0.3:
                el.set("{http://www.w3.org/2001/XMLSchema-instance}nil", "true")
            else:
                el.text = leaf_value(rng, n.leaf_type)
            return el
        groups = []
        shared = None
        for j, (ch, mn, mx) in enumerate(n.children):
            k = mx if full else rng.randint(mn, mx)
            if n.interleave and j < n.n_interleaved:
                if shared is None:
                    # every occurrence shows the interleaving (at least two rounds): an occurrence with a single round
                    # can become the base of the merged class and hide it (open known finding
                    # C13/interleaving-lost-when-first-occurrence-has-one-repetition)
                    shared = max(k, 2) if mx >= 2 and not self.allow_known_findings else k
                k = shared
            groups.append([self.build(ch, None, full) for _ in range(k)])
        if n.interleave:
            # repeated children rendered in parallel order: a b a b ...
            reps = groups[: n.n_interleaved]
            seq = [x[i] for i in range(len(reps[0])) for x in reps]
            for g in groups[n.n_interleaved :]:
                seq.extend(g)
        else:
            seq = [x for g in groups for x in g]
        if n.mixed and seq:
            el.text = "lead text "
        for x in seq:
            if n.mixed and rng.random() < 0.6:
                x.tail = rng.choice(["tail text", " t "])
            el.append(x)
        return el

    # ---- JSON documents
    def json_document(self, full=False):
        return self.jbuild(self.root, full)

    def jbuild(self, n: SNode, full):
        rng = self.rng
        if n.kind == "leaf":
            return jleaf(rng, n.leaf_type)
        out = {}
        for nm, ans, t, optional in n.attrs:
            if full or not optional or rng.random() < 0.6:
                out[nm] = jleaf(rng, t)
        for ch, mn, mx in n.children:
            k = mx if full else rng.randint(mn, mx)
            if mx > 1:
                out[ch.name] = [self.jbuild(ch, full) for _ in range(k)]
            elif k:
                out[ch.name] = self.jbuild(ch, full)
            elif rng.random() < 0.5:
                out[ch.name] = None
        for nm in n.empty_arrays:
            out[nm] = []  # (always present, like every other array: a list field is written even when empty, so an absent key would come back as [])
        return out


def jleaf(rng, t):
    v = leaf_value(rng, t)
    if t == "int":
        return int(v) if abs(int(v)) < 2**53 else 7
    if t == "bool":
        return v == "true"
    if t == "float":
        return float(v)
    if t == "code":
        return "c" + v
    if t == "str" and (v in ("true", "false") or v.replace(".", "", 1).isdigit()):
        return "w" + v  # in JSON a number or boolean is spelled as such; a string that only looks like one is not canonical
    return v


def regular_xml(rng, salt, n_samples=None):
    m = HiddenModel(rng, salt)
    k = n_samples or rng.randrange(1, 5)
    docs = {}
    # one sample shows every optional part - the first or any other one. (Without a complete occurrence the merged field
    # order can contradict a sample: open known finding C13/merged-field-order-contradicts-an-occurrence.)
    r = rng.random()
    full_at = 0 if r < 0.3 else rng.randrange(k)
    for i in range(k):
        docs[f"sample{i}.xml"] = m.xml_document(full=(i == full_at))
    return m, docs


def regular_json(rng, salt, n_samples=None):
    m = HiddenModel(rng, salt)
    m.nss = [None]
    m.used = set()
    m.class_names = ClassNames()
    m.root = m.node(0, None, force_container=True)
    def add_empty_arrays(n):  # an array that is empty in every sample is still an array
        if n.kind != "leaf":
            taken = {a[0] for a in n.attrs} | {c.name for c, _, _ in n.children}
            if rng.random() < 0.2:
                n.empty_arrays = [x for x in rng.sample(["tags", "extras", "none_yet"], rng.choice([1, 1, 2])) if x not in taken]
            for c, _, _ in n.children:
                add_empty_arrays(c)

    add_empty_arrays(m.root)
    k = n_samples or rng.randrange(1, 4)
    r = rng.random()
    full_at = 0 if r < 0.3 else rng.randrange(k)
    docs = {f"sample{i}.json": json.dumps(m.json_document(full=(i == full_at))).encode() for i in range(k)}
    return m, docs


# ---- irregular sample sets (C07): same name used as element and attribute, as leaf and container,
# mixed types per key, empty arrays, nulls, keys that are not identifiers
def irregular_samples(rng, salt, kind):
    if kind == "xml-samples":
        cn = ClassNames()
        names = [n for n in (n if lx.is_ncname(n) else "n" + n for n in rng.sample(HOSTILE_NAMES + PLAIN_NAMES, 14)) if cn.ok(n)][:8]

        def el(depth):
            nm = rng.choice(names)
            e = etree.Element(nm)
            for _ in range(rng.randrange(0, 3)):
                a = rng.choice(names)
                e.set(a, rng.choice(["1", "x", "true", "2020-01-01", "", "1.5"]))
            if depth < 3 and rng.random() < 0.6:
                if rng.random() < 0.3:
                    e.text = "mixed "
                for _ in range(rng.randrange(0, 4)):
                    c = el(depth + 1)
                    if rng.random() < 0.2:
                        c.tail = "t"
                    e.append(c)
            else:
                e.text = rng.choice(["1", "abc", "", "true", "1.5", "2020-01-01", None, " "])
            return e

        docs = {}
        for i in range(rng.randrange(1, 4)):
            root = etree.Element(names[0])
            for _ in range(rng.randrange(1, 5)):
                root.append(el(1))
            docs[f"s{i}.xml"] = etree.tostring(root)
        return docs, sorted(docs), ["irregular-xml"]
    cn = ClassNames()
    keys = [k for k in rng.sample(HOSTILE_NAMES + PLAIN_NAMES + ["with space", "1", "ünï", "a.b", "a-b", "$x", "x y z"], 14) if cn.ok(k)][:9]

    def val(depth):
        r = rng.random()
        if depth < 3 and r < 0.3:
            return {rng.choice(keys): val(depth + 1) for _ in range(rng.randrange(0, 4))}
        if depth < 3 and r < 0.5:
            return [val(depth + 1) for _ in range(rng.randrange(0, 3))]
        return rng.choice([1, "x", True, None, 1.5, "2020-01-01", "", 2**60, [], {}])

    docs = {}
    feats = ["irregular-json"]
    for i in range(rng.randrange(1, 3)):
        d = {k: val(1) for k in rng.sample(keys, rng.randrange(1, 6)) if k != ""} or {"a": 1}
        doc = rng.choice([d, [d, d]])
        r = rng.random()
        if r < 0.06:
            # a document that is no object / array of objects: nothing to generate from, to be refused as such
            doc = rng.choice([[1, 2], 3, None, "text", [[d]], [d, "x"], True, [None]])
            feats.append("json-root-not-an-object")
        elif r < 0.14:
            # keys that are legal JSON but no names: empty, control characters, quotes, braces, backslashes
            d[rng.choice(["", "\t", "\n", "5\" pipe", "{id}name", "C:\\dir\\x", "\ufff0", "a\u0000b", "{", "}x"])] = rng.choice([1, {"x": 1}, [1]])
            doc = d
            feats.append("json-hostile-key")
        docs[f"s{i}.json"] = json.dumps(doc).encode()
    return docs, sorted(docs), feats
