"""WSDL-side IR: seeded WSDL 1.1 definitions with SOAP 1.1 document / rpc bindings (parts by element
or by type, optional headers and faults, inline or imported schema, one-way operations), renderer,
and the per-operation expectations (service configuration, envelope infosets) computed from the spec.
"""

from __future__ import annotations

from dataclasses import dataclass, field

from vf import lexical as lx
from vf.xsdgen import HOSTILE_NAMES, ClassNames

XS = "http://www.w3.org/2001/XMLSchema"
WSDL = "http://schemas.xmlsoap.org/wsdl/"
SOAP = "http://schemas.xmlsoap.org/wsdl/soap/"
ENV = "http://schemas.xmlsoap.org/soap/envelope/"
HTTP = "http://schemas.xmlsoap.org/soap/http"
SIMPLE = ["string", "int", "boolean", "decimal", "date", "double"]


@dataclass
class El:  # a global element of the types schema with a flat sequence of simple children
    name: str
    fields: list  # (name, xs type, min, max)


@dataclass
class Part:
    name: str
    element: str | None = None  # name of a global element of the types schema
    type: str | None = None  # xs builtin local name
    ctype: str | None = None  # name of a named complex type of the types schema


@dataclass
class Op:
    name: str
    style: str
    soap_action: str | None
    input: list  # [Part]
    output: list | None  # None: one-way
    header: Part | None = None
    fault: Part | None = None
    second_fault: bool = False  # another fault of the operation with the same detail element
    out_header: bool = False  # the header message is also declared for the output (the response may carry it, a fault does not)
    body_ns: str | None = None  # rpc: soap:body namespace


@dataclass
class Wsdl:
    tns: str
    types_ns: str
    elements: list
    ops: list
    location: str
    port_type: str
    binding: str
    service: str
    imported_schema: bool = False
    style_on_binding: bool = True
    style_override: bool = False  # some operations declare their own style next to the binding's
    binding_style: str = "document"
    features: set = field(default_factory=set)
    ctypes: list = field(default_factory=list)  # named complex types (El: name + fields) used by parts given by type

    def ct(self, name):
        for e in self.ctypes:
            if e.name == name:
                return e
        raise KeyError(name)

    def el(self, name):
        for e in self.elements:
            if e.name == name:
                return e
        raise KeyError(name)


def xesc(v):
    return v.replace("&", "&amp;").replace("<", "&lt;").replace('"', "&quot;")


class WsdlGen:
    def __init__(self, rng, salt, hostile=False):
        self.rng = rng
        self.salt = salt
        self.hostile = hostile
        self.used = set()
        self.class_names = ClassNames()

    def name(self, base):
        rng = self.rng
        if self.hostile and rng.random() < 0.6:
            for _ in range(40):
                n = rng.choice(HOSTILE_NAMES)
                if lx.is_ncname(n) and n.lower() not in {u.lower() for u in self.used} and len(n) < 30 and self.class_names.ok(n):
                    self.used.add(n)
                    return n
        k = 0
        while f"{base}{k}".lower() in {u.lower() for u in self.used} or not self.class_names.ok(f"{base}{k}"):
            k += 1
        self.used.add(f"{base}{k}")
        return f"{base}{k}"

    def element(self, base):
        rng = self.rng
        used = set()
        fields = []
        for i in range(rng.randrange(1, 4)):
            fn = f"f{i}" if not self.hostile or rng.random() < 0.5 else next((x for x in rng.sample(HOSTILE_NAMES, 10) if lx.is_ncname(x) and x.lower() not in used), f"f{i}")
            used.add(fn.lower())
            fields.append((fn, rng.choice(SIMPLE), rng.choice([1, 1, 0]), rng.choice([1, 1, 3])))
        return El(self.name(base), fields)

    def wsdl(self) -> Wsdl:
        rng = self.rng
        tns = f"urn:wsdlgen:{self.salt}:svc"
        types_ns = tns if rng.random() < 0.6 else f"urn:wsdlgen:{self.salt}:types"
        w = Wsdl(tns, types_ns, [], [], f"http://wsdlgen.test/{self.salt}/endpoint", self.name("Port"), self.name("Binding"), self.name("Service"))
        w.imported_schema = rng.random() < 0.3
        if self.hostile and rng.random() < 0.1:
            w.location = f"http://wsdlgen.test/{self.salt}/end\\point?q=\"1\""
            w.features.add("location-with-quotes-or-backslashes")
        style = rng.choice(["document", "rpc"])
        w.style_on_binding = rng.random() < 0.5
        w.style_override = w.style_on_binding and rng.random() < 0.4
        w.binding_style = style
        for i in range(rng.randrange(1, 5)):
            opname = self.name("Op")
            # soap:operation/@style overrides the style of soap:binding for that operation
            op_style = style if not w.style_override or rng.random() < 0.5 else {"document": "rpc", "rpc": "document"}[style]
            if op_style != style:
                w.features.add("operation-style-overrides-binding-style")
            op = Op(opname, op_style, rng.choice([f"{tns}/{opname}", "", None]), [], [])
            if self.hostile and rng.random() < 0.15:
                op.soap_action = rng.choice([f'"{tns}/{opname}"', f"{tns}\\{opname}", f"it's {opname}"])  # (quoted actions are common in the wild)
                w.features.add("soap-action-with-quotes-or-backslashes")
            if op_style == "document":
                req = self.element("Req")
                w.elements.append(req)
                op.input = [Part("parameters", element=req.name)]
                if rng.random() < 0.85:
                    res = self.element("Res")
                    w.elements.append(res)
                    op.output = [Part("parameters", element=res.name)]
                else:
                    op.output = None
                    w.features.add("one-way")
            else:
                op.body_ns = rng.choice([tns, f"urn:wsdlgen:{self.salt}:rpc"])
                for j in range(rng.randrange(1, 3)):
                    r = rng.random()
                    if r < 0.2:
                        ct = self.element("Pt")
                        w.ctypes.append(ct)
                        op.input.append(Part(f"arg{j}", ctype=ct.name))
                        w.features.add("part-by-complex-type")
                    elif r < 0.6:
                        op.input.append(Part(f"arg{j}", type=rng.choice(SIMPLE)))
                        w.features.add("part-by-type")
                    else:
                        e = self.element("Arg")
                        w.elements.append(e)
                        op.input.append(Part(f"arg{j}", element=e.name))
                op.output = [Part("return", type=rng.choice(SIMPLE))] if rng.random() < 0.85 else None
            if rng.random() < 0.25:
                h = self.element("Hdr")
                w.elements.append(h)
                op.header = Part("header", element=h.name)
                w.features.add("header")
                if op.output is not None and rng.random() < 0.4:
                    op.out_header = True
                    w.features.add("output-header")
            if rng.random() < 0.3 and op.output is not None:
                f = self.element("Err")
                w.elements.append(f)
                op.fault = Part("fault", element=f.name)
                w.features.add("fault")
                if rng.random() < 0.25:
                    op.second_fault = True
                    w.features.add("two-faults-sharing-a-detail-element")
            w.features.add(f"style:{op_style}")
            w.ops.append(op)
        return w


def render(w: Wsdl) -> dict:
    """-> {filename: text}"""
    schema_body = []
    for e in w.elements:
        schema_body.append(f'      <xsd:element name="{e.name}">\n        <xsd:complexType>\n          <xsd:sequence>')
        for fn, t, mn, mx in e.fields:
            occ = (f' minOccurs="{mn}"' if mn != 1 else "") + (f' maxOccurs="{mx}"' if mx != 1 else "")
            schema_body.append(f'            <xsd:element name="{fn}" type="xsd:{t}"{occ}/>')
        schema_body.append("          </xsd:sequence>\n        </xsd:complexType>\n      </xsd:element>")
    for e in w.ctypes:
        schema_body.append(f'      <xsd:complexType name="{e.name}">\n        <xsd:sequence>')
        for fn, t, mn, mx in e.fields:
            occ = (f' minOccurs="{mn}"' if mn != 1 else "") + (f' maxOccurs="{mx}"' if mx != 1 else "")
            schema_body.append(f'          <xsd:element name="{fn}" type="xsd:{t}"{occ}/>')
        schema_body.append("        </xsd:sequence>\n      </xsd:complexType>")
    schema = (f'<xsd:schema xmlns:xsd="{XS}" targetNamespace="{w.types_ns}" elementFormDefault="qualified">\n' + "\n".join(schema_body) + "\n    </xsd:schema>")
    files = {}
    if w.imported_schema:
        files["types.xsd"] = '<?xml version="1.0" encoding="UTF-8"?>\n' + schema
        types = f'<xsd:schema xmlns:xsd="{XS}">\n      <xsd:import namespace="{w.types_ns}" schemaLocation="types.xsd"/>\n    </xsd:schema>'
    else:
        types = schema
    out = [f'<?xml version="1.0" encoding="UTF-8"?>\n<definitions xmlns="{WSDL}" xmlns:soap="{SOAP}" xmlns:tns="{w.tns}" xmlns:ty="{w.types_ns}" xmlns:xsd="{XS}" targetNamespace="{w.tns}" name="{w.service}">',
           f"  <types>\n    {types}\n  </types>"]

    def message(name, parts):
        ps = []
        for p in parts:
            if p.element:
                ps.append(f'    <part name="{p.name}" element="ty:{p.element}"/>')
            elif p.ctype:
                ps.append(f'    <part name="{p.name}" type="ty:{p.ctype}"/>')
            else:
                ps.append(f'    <part name="{p.name}" type="xsd:{p.type}"/>')
        return f'  <message name="{name}">\n' + "\n".join(ps) + "\n  </message>"

    for op in w.ops:
        out.append(message(f"{op.name}In", op.input))
        if op.output is not None:
            out.append(message(f"{op.name}Out", op.output))
        if op.header:
            out.append(message(f"{op.name}Hdr", [op.header]))
        if op.fault:
            out.append(message(f"{op.name}Fault", [op.fault]))
            if op.second_fault:
                out.append(message(f"{op.name}Fault2", [op.fault]))
    out.append(f'  <portType name="{w.port_type}">')
    for op in w.ops:
        out.append(f'    <operation name="{op.name}">\n      <input message="tns:{op.name}In"/>')
        if op.output is not None:
            out.append(f'      <output message="tns:{op.name}Out"/>')
        if op.fault:
            out.append(f'      <fault name="{op.name}Fault" message="tns:{op.name}Fault"/>')
            if op.second_fault:
                out.append(f'      <fault name="{op.name}Fault2" message="tns:{op.name}Fault2"/>')
        out.append("    </operation>")
    out.append("  </portType>")
    bstyle = f' style="{w.binding_style}"' if w.style_on_binding else ""
    out.append(f'  <binding name="{w.binding}" type="tns:{w.port_type}">\n    <soap:binding transport="{HTTP}"{bstyle}/>')
    for op in w.ops:
        ostyle = "" if w.style_on_binding and op.style == w.binding_style else f' style="{op.style}"'
        action = "" if op.soap_action is None else f' soapAction="{xesc(op.soap_action)}"'
        body_ns = f' namespace="{op.body_ns}"' if op.body_ns else ""
        hdr = f'\n        <soap:header message="tns:{op.name}Hdr" part="header" use="literal"/>' if op.header else ""
        out.append(f'    <operation name="{op.name}">\n      <soap:operation{action}{ostyle}/>\n      <input>\n        <soap:body use="literal"{body_ns}/>{hdr}\n      </input>')
        if op.output is not None:
            out.append(f'      <output>\n        <soap:body use="literal"{body_ns}/>{hdr if op.out_header else ""}\n      </output>')
        if op.fault:
            out.append(f'      <fault name="{op.name}Fault">\n        <soap:fault name="{op.name}Fault" use="literal"/>\n      </fault>')
            if op.second_fault:
                out.append(f'      <fault name="{op.name}Fault2">\n        <soap:fault name="{op.name}Fault2" use="literal"/>\n      </fault>')
        out.append("    </operation>")
    out.append("  </binding>")
    out.append(f'  <service name="{w.service}">\n    <port name="{w.service}Port" binding="tns:{w.binding}">\n      <soap:address location="{xesc(w.location)}"/>\n    </port>\n  </service>\n</definitions>')
    files["service.wsdl"] = "\n".join(out)
    return files


def hostile_wsdl(rng, salt):
    w = WsdlGen(rng, salt, hostile=True).wsdl()
    return render(w), ["service.wsdl"], sorted(w.features)
