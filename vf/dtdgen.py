"""DTD-side IR: seeded DTD generator (element declarations EMPTY / ANY / #PCDATA / mixed /
sequences and choices with ? * + nested <= 3; attribute lists CDATA / ID / IDREF(S) / NMTOKEN(S) /
enumerations x #REQUIRED / #IMPLIED / #FIXED / defaults; xmlns declarations as fixed attributes),
renderer, and a generator of DTD-valid documents by walking the content models.
"""

from __future__ import annotations

from dataclasses import dataclass, field

from vf import lexical as lx
from vf.xsdgen import HOSTILE_NAMES, PLAIN_NAMES, ClassNames


@dataclass
class CM:  # content model particle
    kind: str  # elem | seq | choice
    name: str | None = None
    items: list = field(default_factory=list)
    occur: str = ""  # "", ?, *, +


@dataclass
class AttDef:
    name: str
    type: str  # CDATA | ID | IDREF | IDREFS | NMTOKEN | NMTOKENS | enum
    values: list | None = None
    decl: str = "#IMPLIED"  # #REQUIRED | #IMPLIED | #FIXED | default
    value: str | None = None


@dataclass
class ElDecl:
    name: str
    kind: str  # EMPTY | ANY | PCDATA | MIXED | CHILDREN
    model: CM | None = None
    mixed_names: list = field(default_factory=list)
    atts: list = field(default_factory=list)


@dataclass
class Dtd:
    elements: list  # first is the root
    ns_prefix: str | None = None
    ns_uri: str | None = None
    default_ns: str | None = None
    order_preserving: bool = True
    features: set = field(default_factory=set)
    attr_ns: dict = field(default_factory=dict)  # prefix -> uri of attribute-only namespaces

    def decl(self, name):
        for e in self.elements:
            if e.name == name:
                return e
        raise KeyError(name)


class DtdGen:
    def __init__(self, rng, salt, hostile=False, namespaces=True):
        self.rng = rng
        self.salt = salt
        self.hostile = hostile
        self.namespaces = namespaces  # declare a default / prefixed namespace through #FIXED xmlns attributes on the root
        self.attr_namespaces = not hostile
        self.allow_known_findings = False
        self.used = set()
        self.class_names = ClassNames()

    def name(self):
        rng = self.rng
        pool = HOSTILE_NAMES if self.hostile and rng.random() < 0.7 else PLAIN_NAMES
        for _ in range(60):
            n = rng.choice(pool)
            if not lx.is_ncname(n):
                n = "n" + n
            if n not in self.used and (self.hostile or n.lower() not in {u.lower() for u in self.used}) and self.class_names.ok(n):
                self.used.add(n)
                return n
        k = 0
        while f"e{k}" in self.used or not self.class_names.ok(f"e{k}"):
            k += 1
        self.used.add(f"e{k}")
        return f"e{k}"

    def dtd(self) -> Dtd:
        rng = self.rng
        n = rng.randrange(2, 7)
        names = [self.name() for _ in range(n)]
        d = Dtd([])
        r = rng.random() if self.namespaces else 1.0
        if r < 0.2:
            d.default_ns = f"urn:dtdgen:{self.salt}:d"
            d.features.add("default-namespace")
        elif r < 0.4:
            d.ns_prefix, d.ns_uri = "p", f"urn:dtdgen:{self.salt}:p"
            names = [f"p:{x}" for x in names]
            d.features.add("prefixed-namespace")
        leafs = []
        for i, nm in enumerate(names):
            later = names[i + 1 :]
            e = ElDecl(nm, "PCDATA")
            r = rng.random()
            if i == 0 and later:
                r = 0.0  # the root always has children
            if r < 0.45 and later:
                e.kind = "CHILDREN"
                e.model = self.model(d, later, 0)
            elif r < 0.55 and later:
                e.kind = "MIXED"
                e.mixed_names = rng.sample(later, rng.randrange(1, min(3, len(later)) + 1))
                d.features.add("mixed")
                d.order_preserving = False
            elif r < 0.62:
                e.kind = "EMPTY"
                d.features.add("EMPTY")
            elif r < 0.66:
                e.kind = "ANY"
                d.features.add("ANY")
                d.order_preserving = False
            e.atts = self.atts(d, e)
            d.elements.append(e)
        root = d.elements[0]
        if d.default_ns:
            root.atts.append(AttDef("xmlns", "CDATA", decl="#FIXED", value=d.default_ns))
        if d.ns_uri:
            root.atts.append(AttDef("xmlns:p", "CDATA", decl="#FIXED", value=d.ns_uri))
        return d

    def model(self, d, later, depth):
        rng = self.rng
        kind = rng.choice(["seq", "seq", "choice"])
        m = CM(kind)
        pool = list(later)
        rng.shuffle(pool)
        k = rng.randrange(1, min(4, len(pool)) + 1)
        have_sub = False
        for nm in pool[:k]:
            if depth < 2 and rng.random() < 0.3 and len(pool) > k and not have_sub:
                have_sub = True
                sub = self.model(d, pool[k:], depth + 1)
                if kind == "choice" and sub.kind == "seq" and len(sub.items) > 1 and not self.allow_known_findings:
                    # a sequence as one alternative of a choice: with compound fields all its members land in one
                    # single-valued field (open known finding C16/sequence-inside-choice-collapses, probe in vf/props/c16.py)
                    sub.kind = "choice"
                    for x in sub.items:  # (its own sequence members are alternatives of a choice now: same rule one level down)
                        if x.kind == "seq" and len(x.items) > 1:
                            x.kind = "choice"
                sub.occur = rng.choice(["", "?", "?", "*", "+"])
                if sub.occur == "?" and sub.kind == "seq" and rng.random() < 0.6:
                    for x in sub.items:  # an optional group of required members: all of them or none
                        if x.kind == "elem":
                            x.occur = ""
                    d.features.add("optional-group-of-required-members")
                if sub.occur in ("*", "+") and not (sub.kind == "choice" and all(x.kind == "elem" and x.occur == "" for x in sub.items)):
                    d.order_preserving = False
                d.features.add(f"nested-{sub.kind}{sub.occur}")
                m.items.append(sub)
            m.items.append(CM("elem", nm, occur=rng.choice(["", "", "?", "*", "+"])))
        if depth == 0:
            m.occur = rng.choice(["", "", "", "*", "+"]) if kind == "choice" else rng.choice(["", "", "", "+"])
            if kind == "choice" and m.occur and rng.random() < 0.6:
                for x in m.items:  # a repeating choice of single elements: the order-preserving shape
                    if x.kind == "elem":
                        x.occur = ""
            if m.occur in ("*", "+") and not (kind == "choice" and all(x.kind == "elem" and x.occur == "" for x in m.items)):
                d.order_preserving = False
        return m

    def atts(self, d, e):
        rng = self.rng
        out = []
        used = set()
        have_id = False
        for _ in range(rng.choice([0, 0, 1, 2, 3])):
            nm = rng.choice((HOSTILE_NAMES if self.hostile else []) + ["id", "ref", "kind", "lang", "size", "status", "xml:lang", "a-b", "n.m"])
            if not lx.is_ncname(nm.replace(":", "_")) or nm in used:
                continue
            used.add(nm)
            t = rng.choice(["CDATA", "CDATA", "NMTOKEN", "NMTOKENS", "enum", "ID", "IDREF", "IDREFS"])
            if t == "ID":
                if have_id:
                    t = "CDATA"
                have_id = True
            if t == "enum" and not self.allow_known_findings and not self.class_names.ok(f"{e.name.split(':')[-1]}_{nm.split(':')[-1]}"):
                # the enumeration becomes a class <Element>_<attribute>: identifiers that collide with another class after the
                # naming conventions (element False -> FalseType, attribute type of it -> False_type) are the open known finding
                # C07/class-identifiers-collide-after-naming-conventions (probe in vf/props/c07.py)
                t = "CDATA"
            a = AttDef(nm, t)
            if t == "enum":
                a.values = rng.sample(["draft", "published", "a", "b-1", "x.y", "1st" if False else "first", "UPPER", "class" if self.hostile else "klass", "None" if self.hostile else "none"], rng.randrange(2, 5))
            r = rng.random()
            if t in ("IDREF", "IDREFS"):
                a.decl = "#IMPLIED"  # only written when the document has IDs to point at
            elif t in ("ID",):
                a.decl = rng.choice(["#REQUIRED", "#IMPLIED"])
            elif r < 0.3:
                a.decl = "#REQUIRED"
            elif r < 0.6:
                a.decl = "#IMPLIED"
            elif r < 0.75 and t not in ("IDREF", "IDREFS"):
                a.decl, a.value = "#FIXED", self.att_value(a, fixed=True)
                if any(ch in a.value for ch in '&<"'):
                    # libxml2's validator compares a #FIXED value with its own raw copy of the literal (& kept as &#38;, &lt; not
                    # resolved): a correct document is reported invalid - an artefact of the oracle, so markup characters only go
                    # into plain defaults
                    a.value = "two words"
                d.features.add("att-fixed")
            elif t not in ("IDREF", "IDREFS"):
                a.decl, a.value = "default", self.att_value(a, fixed=True)
                d.features.add("att-default")
            d.features.add(f"att-{t}")
            out.append(a)
        if rng.random() < 0.1 and "lang" not in used and "xml:lang" not in used:
            # a prefixed and an unprefixed enumeration attribute with the same local name and different value sets
            for nm, vals in (("xml:lang", rng.sample(["en", "de", "fr", "el"], rng.choice([2, 3]))), ("lang", rng.sample(["short", "long", "iso", "none"], rng.choice([2, 3])))):
                a = AttDef(nm, "enum")
                a.values = vals
                a.decl = rng.choice(["#REQUIRED", "#IMPLIED", "default"])
                if a.decl == "default":
                    a.value = rng.choice(vals)
                used.add(nm)
                out.append(a)
            if rng.random() < 0.5:
                out[-2:] = [out[-1], out[-2]]
            d.features.add("att-enum-same-local-name-prefixed-and-not")
        if self.attr_namespaces and rng.random() < 0.2:
            # namespaced attributes: the prefixes are declared by #FIXED xmlns:* attributes of the same element
            # (several adjacent declarations); the element itself stays without namespace
            n = rng.choice([1, 2, 2, 3])
            # (the order in which libxml2 reports the declarations depends on the names: vary them)
            decls = [(pfx, f"urn:dtdgen:{self.salt}:{pfx}") for pfx in rng.sample(["p", "q", "a1", "a2", "xlink", "ns", "x", "meta"], n)]
            for pfx, uri in decls:
                out.append(AttDef(f"xmlns:{pfx}", "CDATA", decl="#FIXED", value=uri))
            for pfx, uri in decls:
                a = AttDef(f"{pfx}:{rng.choice(['code', 'kind'])}", "CDATA", decl=rng.choice(["#REQUIRED", "#IMPLIED", "default"]))
                if a.decl == "default":
                    a.value = rng.choice(["value", "x-y"])
                out.append(a)
            d.attr_ns.update(dict(decls))
            d.features.add("att-namespaced")
        return out

    def att_value(self, a, fixed=False, ids=None):
        rng = self.rng
        if a.type == "enum":
            return rng.choice(a.values)
        if a.type == "NMTOKEN":
            return rng.choice(["tok", "a-b", "x1", "1st", "é"])
        if a.type == "NMTOKENS":
            return " ".join(rng.choice(["tok", "a-b", "x1"]) for _ in range(rng.randrange(1, 4)))
        if a.name == "xml:lang":
            return rng.choice(["en", "fr", "de-CH"])
        if fixed:
            return rng.choice(["value", "two words", "é", "1", "x-y", "", "q&a", "a<b & c", 'say "hi"'])  # (markup characters are written as entity references in the literal)
        return rng.choice(["value", "two words", "q&a", "é", "a<b", "1"])


def render(d: Dtd) -> str:
    out = []
    for e in d.elements:
        if e.kind == "EMPTY":
            c = "EMPTY"
        elif e.kind == "ANY":
            c = "ANY"
        elif e.kind == "PCDATA":
            c = "(#PCDATA)*" if sum(map(ord, e.name)) % 4 == 0 else "(#PCDATA)"  # both spellings mean text-only content
        elif e.kind == "MIXED":
            c = "(#PCDATA|" + "|".join(e.mixed_names) + ")*"
        else:
            c = cm_str(e.model, top=True)
        out.append(f"<!ELEMENT {e.name} {c}>")
        for a in e.atts:
            t = "(" + "|".join(a.values) + ")" if a.type == "enum" else a.type
            if a.decl == "#FIXED":
                dflt = f'#FIXED "{esc(a.value)}"'
            elif a.decl == "default":
                dflt = f'"{esc(a.value)}"'
            else:
                dflt = a.decl
            out.append(f"<!ATTLIST {e.name} {a.name} {t} {dflt}>")
    return "\n".join(out) + "\n"


def esc(s):
    return s.replace("&", "&amp;").replace("<", "&lt;").replace('"', "&quot;")


def cm_str(m: CM, top=False):
    if m.kind == "elem":
        s = m.name + m.occur
        return f"({s})" if top else s
    sep = "," if m.kind == "seq" else "|"
    return "(" + sep.join(cm_str(x) for x in m.items) + ")" + m.occur


class DocGen:
    def __init__(self, d: Dtd, rng, mode="random"):
        self.d = d
        self.rng = rng
        self.mode = mode
        self.ids = []
        self.id_counter = 0
        self.depth = 0
        self.tails_after_mixed_children = False

    def document(self):
        from lxml import etree

        self.pending_refs = []
        root = self.element(self.d.elements[0].name)
        for el, name, many in self.pending_refs:
            ids = self.ids or None
            if ids is None:
                del el.attrib[name]
                continue
            el.set(name, " ".join(self.rng.choice(ids) for _ in range(self.rng.randrange(1, 3))) if many else self.rng.choice(ids))
        return etree.tostring(root, encoding="UTF-8")

    def qname(self, name):
        if ":" in name:
            p, l = name.split(":", 1)
            if p == "xml":
                return f"{{http://www.w3.org/XML/1998/namespace}}{l}"
            return f"{{{self.d.ns_uri}}}{l}"
        return f"{{{self.d.default_ns}}}{name}" if self.d.default_ns else name

    def element(self, name):
        from lxml import etree

        rng = self.rng
        e = self.d.decl(name)
        nsmap = {}
        if self.d.ns_uri:
            nsmap["p"] = self.d.ns_uri
        if self.d.default_ns:
            nsmap[None] = self.d.default_ns
        if any(a.name.startswith("xmlns:") and a.name[6:] in self.d.attr_ns for a in e.atts):
            nsmap.update({a.name[6:]: a.value for a in e.atts if a.name.startswith("xmlns:") and a.name[6:] in self.d.attr_ns})
        el = etree.Element(self.qname(name), nsmap=nsmap)
        for a in e.atts:
            if a.name.startswith("xmlns"):
                continue
            if a.decl == "#FIXED":
                if rng.random() < 0.4:
                    el.set(self.att_qname(a.name), a.value)
                continue
            present = a.decl == "#REQUIRED" or (self.mode == "maximal") or (self.mode == "random" and rng.random() < 0.6)
            if self.mode == "minimal" and a.decl != "#REQUIRED":
                present = False
            if not present:
                continue
            if a.type == "ID":
                self.id_counter += 1
                v = f"id{self.id_counter}"
                self.ids.append(v)
                el.set(self.att_qname(a.name), v)
            elif a.type in ("IDREF", "IDREFS"):
                el.set(self.att_qname(a.name), "pending")
                self.pending_refs.append((el, self.att_qname(a.name), a.type == "IDREFS"))
            else:
                el.set(self.att_qname(a.name), DtdGen(rng, "", False).att_value(a))
        self.depth += 1
        try:
            if e.kind == "PCDATA":
                el.text = rng.choice(["text", "two words", "q&a", "é", "1", ""]) or None
            elif e.kind == "MIXED":
                el.text = rng.choice(["lead ", None, "x"])
                for _ in range(0 if self.depth > 4 else rng.randrange(0, 3)):
                    cname = rng.choice(e.mixed_names)
                    ch = self.element(cname)
                    if self.tails_after_mixed_children or self.d.decl(cname).kind not in ("MIXED", "ANY"):
                        # text after a child that has mixed/ANY content itself ends up inside that child:
                        # open known finding C16/tail-after-mixed-child-moves-into-the-child (probe in vf/props/c16.py)
                        ch.tail = rng.choice(["tail", None, " t "])
                    el.append(ch)
            elif e.kind == "ANY":
                if rng.random() < 0.5 and self.depth < 4:
                    leaf = [x.name for x in self.d.elements if x.kind in ("PCDATA", "EMPTY")]
                    for _ in range(rng.randrange(0, 3)):
                        if leaf:
                            el.append(self.element(rng.choice(leaf)))
                else:
                    el.text = rng.choice(["any text", None])
            elif e.kind == "CHILDREN":
                self.walk(el, e.model)
        finally:
            self.depth -= 1
        return el

    def att_qname(self, name):
        if name.startswith("xml:"):
            return f"{{http://www.w3.org/XML/1998/namespace}}{name[4:]}"
        if ":" in name and name.split(":", 1)[0] in self.d.attr_ns:
            p, l = name.split(":", 1)
            return f"{{{self.d.attr_ns[p]}}}{l}"
        return name

    def times(self, occur):
        rng = self.rng
        lo, hi = {"": (1, 1), "?": (0, 1), "*": (0, 3), "+": (1, 3)}[occur]
        if self.mode == "minimal" or self.depth > 4:
            return lo
        if self.mode == "maximal":
            return hi
        return rng.randint(lo, hi)

    def walk(self, parent, m: CM):
        rng = self.rng
        for _ in range(self.times(m.occur)):
            if m.kind == "elem":
                parent.append(self.element(m.name))
            elif m.kind == "seq":
                for x in m.items:
                    self.walk(parent, x)
            else:
                self.walk(parent, rng.choice(m.items))


def hostile_dtd(rng, salt):
    d = DtdGen(rng, salt, hostile=True).dtd()
    return {"main.dtd": render(d)}, ["main.dtd"], sorted(d.features)
