"""Child side of vf.gen: runs inside the generation subprocess (never in the harness).

Two entry points:

* `python -m vf.gen_child <job.json>` — route "api": builds the GeneratorConfig, applies
  the options, runs `ResourceTransformer(config).process(uris)` like `xsdata.cli.generate`
  does, `repeat` times, and writes the status file in a `try/except BaseException`.
* `boot()` — routes "cli" / "config": called by vf/boot/sitecustomize.py (found through
  PYTHONPATH) at interpreter start-up of the real `python -m xsdata generate ...`
  process, when the environment variable XSDATA_VERIF_GEN_JOB names a job file. It writes
  the configuration file (route "config") and installs the observation hooks; then the
  unmodified xsdata CLI runs as __main__.

Hooks (observation only, nothing is altered):
  * step-digest log around the ClassContainer pipeline (see `install_hooks`)
  * exception probe around ResourceTransformer.process (cli routes: click turns the
    exception into an exit code, the probe keeps class / MRO / message)
"""

from __future__ import annotations

import hashlib
import json
import os
import sys
import traceback
from contextlib import contextmanager

JOB_ENV = "XSDATA_VERIF_GEN_JOB"
ID_LIKE = 1_000_000  # ints above this in sequence/choice/group/path are id() values


class HarnessError(Exception):
    """The harness (not xsdata) is at fault: bad job, stale option table, ..."""


# ---------------------------------------------------------------------------------------
# exception description
# ---------------------------------------------------------------------------------------


def qualname(cls) -> str:
    mod = getattr(cls, "__module__", None)
    name = getattr(cls, "__qualname__", getattr(cls, "__name__", repr(cls)))
    return name if mod in (None, "builtins") else f"{mod}.{name}"


def describe_exception(e: BaseException) -> dict:
    meta = getattr(e, "meta", None)
    try:
        message = str(e)
    except Exception as e2:  # noqa: BLE001
        message = f"<str() failed: {e2!r}>"
    return {
        "exc_type": qualname(type(e)),
        "exc_mro": [qualname(c) for c in type(e).__mro__],
        "message": message,
        "exc_meta": {str(k): str(v) for k, v in meta.items()} if isinstance(meta, dict) else {},
        "traceback": "".join(traceback.format_exception(type(e), e, e.__traceback__))[-20000:],
        "cause": qualname(type(e.__cause__ or e.__context__)) if (e.__cause__ or e.__context__) else None,
    }


def write_json(path: str, obj) -> None:
    tmp = path + ".tmp"
    with open(tmp, "w", encoding="utf-8") as f:
        json.dump(obj, f)
    os.replace(tmp, path)


# ---------------------------------------------------------------------------------------
# canonical rendering of codegen classes (independent of id() and of the temp dir)
# ---------------------------------------------------------------------------------------


class _Canon:
    def __init__(self, root: str):
        self.root = root
        self.root_uri = "file://" + root

    def idlike(self, value, ids: dict):
        if isinstance(value, int) and not isinstance(value, bool) and abs(value) >= ID_LIKE:
            return "id%d" % ids.setdefault(value, len(ids))
        return value

    def text(self, value):
        if isinstance(value, str) and self.root and self.root in value:
            return value.replace(self.root_uri, "file://<TMP>").replace(self.root, "<TMP>")
        return value

    def plain(self, value):
        if value is None or isinstance(value, (bool, int, str)):
            return self.text(value)
        if isinstance(value, float):
            return repr(value)
        if isinstance(value, (list, tuple)):
            return [self.plain(v) for v in value]
        if isinstance(value, dict):
            return sorted(([str(k), self.plain(v)] for k, v in value.items()), key=lambda kv: kv[0])
        r = repr(value)
        return "<%s>" % type(value).__name__ if " at 0x" in r else r

    def restrictions(self, r, ids: dict):
        if r is None:
            return None
        out = {}
        for name in r.__dataclass_fields__:
            v = getattr(r, name)
            if v is None or v == []:
                continue
            if name in ("sequence", "choice", "group"):
                v = self.idlike(v, ids)
            elif name == "path":
                v = [[self.idlike(x, ids) for x in step] for step in v]
            else:
                v = self.plain(v)
            out[name] = v
        return out

    def attr_type(self, t):
        return [t.qname, t.alias, bool(t.native), bool(t.forward), bool(t.circular), bool(t.substituted)]

    def attr(self, a, ids: dict):
        return {
            "tag": a.tag,
            "name": a.name,
            "local_name": a.local_name,
            "wrapper": a.wrapper,
            "index": a.index,
            "default": self.plain(a.default),
            "fixed": a.fixed,
            "mixed": a.mixed,
            "types": [self.attr_type(t) for t in a.types],
            "choices": [self.attr(c, ids) for c in a.choices],
            "namespace": a.namespace,
            "help": a.help,
            "restrictions": self.restrictions(a.restrictions, ids),
            "parent": a.parent,
            "substitution": a.substitution,
        }

    def clazz(self, c, ids: dict | None = None):
        ids = {} if ids is None else ids
        return {
            "qname": c.qname,
            "tag": c.tag,
            "location": self.text(c.location),
            "mixed": c.mixed,
            "abstract": c.abstract,
            "nillable": c.nillable,
            "local_type": c.local_type,
            "status": int(c.status),
            "container": c.container,
            "package": c.package,
            "module": c.module,
            "namespace": c.namespace,
            "help": c.help,
            "meta_name": c.meta_name,
            "default": self.plain(c.default),
            "fixed": c.fixed,
            "substitutions": list(c.substitutions),
            "extensions": [
                {"tag": e.tag, "type": self.attr_type(e.type), "restrictions": self.restrictions(e.restrictions, ids)}
                for e in c.extensions
            ],
            "attrs": [self.attr(a, ids) for a in c.attrs],
            "inner": [self.clazz(i, ids) for i in c.inner],
            "ns_map": sorted(([str(k) if k is not None else "", str(v)] for k, v in c.ns_map.items())),
            "parent": c.parent.qname if c.parent is not None else None,
        }


def _sha(obj) -> str:
    return hashlib.sha256(json.dumps(obj, sort_keys=True, ensure_ascii=True, default=repr).encode()).hexdigest()


def container_digest(container, canon: _Canon) -> dict:
    """Digest of the whole container in its own iteration order + per-class digests."""
    classes: dict[str, str] = {}
    order: list[str] = []
    for qname, items in list(container.data.items()):
        for index, c in enumerate(items):
            key = f"{qname}#{index}"
            classes[key] = _sha(canon.clazz(c))[:16]
            order.append(key)
    return {
        "n_classes": len(order),
        "digest": _sha([[k, classes[k]] for k in order]),
        "classes": classes,
        "order_digest": _sha(order)[:16],
    }


# ---------------------------------------------------------------------------------------
# hooks
# ---------------------------------------------------------------------------------------

_STATE = {"run": 0, "steplog": None, "canon": None, "handlers": None, "seq": 0}


def _emit(record: dict) -> None:
    record["run"] = _STATE["run"]
    record["seq"] = _STATE["seq"]
    _STATE["seq"] += 1
    with open(_STATE["steplog"], "a", encoding="utf-8") as f:
        f.write(json.dumps(record) + "\n")


def install_hooks(steplog: str, root: str) -> None:
    """Wrap the ClassContainer pipeline so that after every stage a digest record
    {"step", "n_classes", "digest", "classes", "handlers", "handler_calls", "run", "seq"}
    is appended to `steplog` (JSON lines). Stages: "input", "validate_classes", 10,
    "remove_groups", 20, "filter_classes", 30, 40, 50, 60, "designate_classes"."""
    from xsdata.codegen import container as cmod

    _STATE["steplog"] = steplog
    _STATE["canon"] = _Canon(root)
    C = cmod.ClassContainer
    if getattr(C, "_verif_hooked", False):
        return
    real_stopwatch = cmod.stopwatch

    @contextmanager
    def recording_stopwatch(name):
        h = _STATE["handlers"]
        if h is not None:
            h.append(name)
        with real_stopwatch(name):
            yield

    cmod.stopwatch = recording_stopwatch

    def record(self, label, error=None):
        names = _STATE["handlers"] or []
        uniq = list(dict.fromkeys(names))
        rec = {"step": label, "handlers": uniq, "handler_calls": len(names)}
        if error is not None:
            rec["error"] = qualname(type(error))
        try:
            rec.update(container_digest(self, _STATE["canon"]))
        except Exception as e:  # noqa: BLE001  (never let observation break generation)
            rec.update({"n_classes": -1, "digest": None, "classes": {}, "digest_error": repr(e)})
        _emit(rec)

    def wrap(name, label_of):
        original = getattr(C, name)

        def wrapper(self, *args, **kwargs):
            label = label_of(*args, **kwargs)
            outer = _STATE["handlers"]
            _STATE["handlers"] = []
            try:
                result = original(self, *args, **kwargs)
            except BaseException as e:
                record(self, label, error=e)
                raise
            else:
                record(self, label)
            finally:
                _STATE["handlers"] = outer
            return result

        wrapper.__name__ = original.__name__
        wrapper.__doc__ = original.__doc__
        wrapper.__wrapped__ = original
        setattr(C, name, wrapper)

    wrap("process_classes", lambda step, *a, **k: int(step))
    for stage in ("validate_classes", "remove_groups", "filter_classes", "designate_classes"):
        wrap(stage, lambda *a, _s=stage, **k: _s)

    original_process = C.process

    def process(self, *args, **kwargs):
        _STATE["handlers"] = None
        record(self, "input")
        return original_process(self, *args, **kwargs)

    process.__wrapped__ = original_process
    C.process = process
    C._verif_hooked = True


def install_exception_probe(path: str) -> None:
    """Record class/MRO/message of an exception leaving ResourceTransformer.process."""
    from xsdata.codegen.transformer import ResourceTransformer

    original = ResourceTransformer.process
    if getattr(original, "_verif_probe", False):
        return

    def process(self, *args, **kwargs):
        try:
            return original(self, *args, **kwargs)
        except BaseException as e:
            try:
                write_json(path, describe_exception(e))
            except Exception:  # noqa: BLE001
                pass
            raise

    process._verif_probe = True
    process.__wrapped__ = original
    ResourceTransformer.process = process


# ---------------------------------------------------------------------------------------
# configuration
# ---------------------------------------------------------------------------------------


def build_config(options: dict):
    """GeneratorConfig() (what `xsdata generate` starts from when there is no
    .xsdata.xml) with the flat dotted `options` applied. `output.*` goes through
    GeneratorOutput.update like the CLI's option handling."""
    import enum
    from dataclasses import fields, is_dataclass
    from typing import get_type_hints

    from xsdata.models import config as cfg

    config = cfg.GeneratorConfig()
    list_items = {
        "substitutions.substitution": cfg.GeneratorSubstitution,
        "extensions.extension": cfg.GeneratorExtension,
    }

    def convert(path, hint, value):
        if isinstance(hint, type) and issubclass(hint, enum.Enum):
            try:
                return hint(value)
            except ValueError:
                try:
                    return hint[value]
                except KeyError:
                    raise HarnessError(f"{path}: {value!r} is not a value of {hint.__name__}") from None
        return value

    def resolve(path):
        obj, hint = config, cfg.GeneratorConfig
        parts = path.split(".")
        for i, part in enumerate(parts):
            if not is_dataclass(hint) or part not in {f.name for f in fields(hint)}:
                raise HarnessError(f"option table of vf.gen is stale: no field {'.'.join(parts[: i + 1])!r} in GeneratorConfig")
            sub_hint = get_type_hints(hint)[part]
            if i == len(parts) - 1:
                return obj, part, sub_hint
            obj, hint = getattr(obj, part), sub_hint
        raise HarnessError(path)

    output_params = {}
    for path, value in options.items():
        if path in list_items:
            item_cls = list_items[path]
            hints = get_type_hints(item_cls)
            items = []
            for entry in value:
                kwargs = {k: convert(f"{path}.{k}", hints.get(k), v) for k, v in entry.items()}
                items.append(item_cls(**kwargs))
            owner, name, _ = resolve(path)
            setattr(owner, name, items)
            continue
        owner, name, hint = resolve(path)
        if is_dataclass(hint):
            raise HarnessError(f"{path} is a group of options, not an option")
        converted = convert(path, hint, value)
        if path.startswith("output."):
            output_params[path[len("output.") :]] = converted
        else:
            setattr(owner, name, converted)
    if output_params:
        config.output.update(**output_params)
    return config


def write_config_file(options: dict, path: str) -> None:
    from xsdata.models.config import GeneratorConfig

    config = build_config(options)
    with open(path, "w", encoding="utf-8") as fp:
        GeneratorConfig.write(fp, config)


# ---------------------------------------------------------------------------------------
# route "api"
# ---------------------------------------------------------------------------------------


def run_api(job: dict) -> None:
    from xsdata.cli import handler as cli_log_handler
    from xsdata.cli import resolve_source
    from xsdata.codegen.transformer import ResourceTransformer

    root = job["root"]
    if job.get("hooks"):
        install_hooks(job["steplog"], root)
    repeat = int(job.get("repeat", 1))
    os.chdir(root)
    for i in range(repeat):
        _STATE["run"] = i
        try:
            config = build_config(job["config"])
            uris: list[str] = []
            for source in job["entry"]:
                uris.extend(resolve_source(source, recursive=bool(job.get("recursive"))))
            transformer = ResourceTransformer(config=config)
            try:
                transformer.process(sorted(uris))
            finally:
                cli_log_handler.emit_warnings()  # what `xsdata generate` does last
        finally:
            if repeat > 1:
                _stash_output(root, i)


def _stash_output(root: str, i: int) -> None:
    """repeat > 1: every run generates into the same cwd (xsdata.utils.package caches
    cwd-joined paths with lru_cache, so a later run after os.chdir fails in
    DataclassGenerator.render); after run i its output tree is moved to <root>/out<i>/."""
    target = os.path.join(root, f"out{i}")
    os.makedirs(target, exist_ok=True)
    for name in sorted(os.listdir(root)):
        if name in ("src", ".verif") or (name.startswith("out") and name[3:].isdigit()):
            continue
        os.rename(os.path.join(root, name), os.path.join(target, name))


def main(argv: list[str]) -> int:
    with open(argv[0], encoding="utf-8") as f:
        job = json.load(f)
    status: dict = {"status": "ok"}
    try:
        run_api(job)
    except BaseException as e:  # noqa: BLE001  (SystemExit / KeyboardInterrupt included)
        status = {"status": "error", **describe_exception(e)}
        sys.stderr.write(status["traceback"])
    finally:
        try:
            sys.stdout.flush()
            sys.stderr.flush()
        except Exception:  # noqa: BLE001
            pass
    status["runs_completed"] = _STATE["run"] + (1 if status["status"] == "ok" else 0)
    write_json(job["status"], status)
    return 0 if status["status"] == "ok" else 3


# ---------------------------------------------------------------------------------------
# routes "cli" / "config": start-up hook of the real `python -m xsdata` process
# ---------------------------------------------------------------------------------------


def boot() -> None:
    path = os.environ.pop(JOB_ENV, None)  # not inherited by ruff & co
    if not path:
        return
    try:
        with open(path, encoding="utf-8") as f:
            job = json.load(f)
        if job.get("write_config"):
            write_config_file(job["config"], job["write_config"])
        if job.get("hooks"):
            install_hooks(job["steplog"], job["root"])
            install_exception_probe(job["excfile"])
        write_json(job["status"], {"status": "booted"})
    except BaseException as e:  # noqa: BLE001
        # an exception escaping sitecustomize is only printed as a one-liner and the
        # interpreter goes on: make the failure unmistakable instead
        try:
            write_json(job["status"] if "job" in locals() else path + ".booterror", {"status": "boot-error", **describe_exception(e)})
        finally:
            traceback.print_exc()
            sys.stderr.flush()
            os._exit(97)


if __name__ == "__main__":
    sys.exit(main(sys.argv[1:]))
