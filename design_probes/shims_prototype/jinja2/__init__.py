"""Minimal Jinja2-compatible template engine (verification harness stand-in).

Implements the subset of Jinja2 3.x that xsdata's code generator templates use,
with Jinja2's default Environment settings (trim_blocks=False,
lstrip_blocks=False, keep_trailing_newline=False, autoescape=False).
"""

from __future__ import annotations

import itertools
import os
import re
from collections import namedtuple
from typing import Any

__version__ = "0-verif-shim"


class TemplateError(Exception):
    pass


class TemplateSyntaxError(TemplateError):
    pass


class TemplateNotFound(TemplateError):
    pass


class UndefinedError(TemplateError):
    pass


class Undefined:
    __slots__ = ("_name",)

    def __init__(self, name: str | None = None):
        self._name = name

    def _fail(self, *a: Any, **k: Any) -> Any:
        raise UndefinedError(f"{self._name!r} is undefined")

    __getattr__ = __getitem__ = __call__ = _fail
    __add__ = __radd__ = __sub__ = __rsub__ = __mul__ = __rmul__ = _fail
    __lt__ = __le__ = __gt__ = __ge__ = __int__ = __float__ = _fail

    def __eq__(self, other: Any) -> bool:
        return type(self) is type(other)

    def __ne__(self, other: Any) -> bool:
        return not self.__eq__(other)

    def __hash__(self) -> int:
        return id(type(self))

    def __str__(self) -> str:
        return ""

    def __len__(self) -> int:
        return 0

    def __iter__(self):
        return iter(())

    def __bool__(self) -> bool:
        return False

    def __repr__(self) -> str:
        return "Undefined"


# ---------------------------------------------------------------------------
# Lexer
# ---------------------------------------------------------------------------

_TAG_RE = re.compile(r"(\{\{-?|\{%-?|\{#-?)", re.S)

_TOKEN_RE = re.compile(
    r"""
    (?P<ws>\s+)
  | (?P<float>\d+\.\d+)
  | (?P<int>\d+)
  | (?P<name>[A-Za-z_][A-Za-z0-9_]*)
  | (?P<str>"(?:\\.|[^"\\])*"|'(?:\\.|[^'\\])*')
  | (?P<op>==|!=|<=|>=|//|\*\*|[-+*/%~<>=|.,:()\[\]{}])
    """,
    re.X | re.S,
)

_ESCAPES = {
    "n": "\n",
    "t": "\t",
    "r": "\r",
    "\\": "\\",
    "'": "'",
    '"': '"',
    "0": "\0",
}


def _unescape(body: str) -> str:
    out = []
    i = 0
    while i < len(body):
        ch = body[i]
        if ch == "\\" and i + 1 < len(body):
            nxt = body[i + 1]
            if nxt in _ESCAPES:
                out.append(_ESCAPES[nxt])
            else:
                out.append("\\" + nxt)
            i += 2
        else:
            out.append(ch)
            i += 1
    return "".join(out)


def _tokenize_expr(src: str) -> list[tuple[str, Any]]:
    pos = 0
    tokens: list[tuple[str, Any]] = []
    while pos < len(src):
        m = _TOKEN_RE.match(src, pos)
        if not m:
            raise TemplateSyntaxError(f"unexpected char {src[pos]!r} in {src!r}")
        pos = m.end()
        kind = m.lastgroup
        val = m.group(kind)
        if kind == "ws":
            continue
        if kind == "int":
            tokens.append(("int", int(val)))
        elif kind == "float":
            tokens.append(("float", float(val)))
        elif kind == "str":
            tokens.append(("str", _unescape(val[1:-1])))
        else:
            tokens.append((kind, val))
    tokens.append(("eof", None))
    return tokens


def _lex(source: str) -> list[tuple[str, Any]]:
    """Split template source into ('data', str) / ('var', tokens) / ('block', tokens)."""
    out: list[tuple[str, Any]] = []
    pos = 0
    strip_next = False
    n = len(source)
    while pos < n:
        m = _TAG_RE.search(source, pos)
        if not m:
            data = source[pos:]
            if strip_next:
                data = data.lstrip()
            out.append(("data", data))
            break
        data = source[pos : m.start()]
        if strip_next:
            data = data.lstrip()
            strip_next = False
        opener = m.group(1)
        if opener.endswith("-"):
            data = data.rstrip()
        if data:
            out.append(("data", data))
        kind = opener[:2]
        closer = {"{{": "}}", "{%": "%}", "{#": "#}"}[kind]
        end = _find_close(source, m.end(), closer)
        inner = source[m.end() : end]
        pos = end + 2
        if inner.endswith("-"):
            inner = inner[:-1]
            strip_next = True
        if kind == "{{":
            out.append(("var", _tokenize_expr(inner)))
        elif kind == "{%":
            out.append(("block", _tokenize_expr(inner)))
    return out


def _find_close(source: str, start: int, closer: str) -> int:
    """Find the closing delimiter, skipping over string literals."""
    i = start
    n = len(source)
    quote = None
    while i < n:
        ch = source[i]
        if quote:
            if ch == "\\":
                i += 2
                continue
            if ch == quote:
                quote = None
        elif closer != "#}" and ch in "\"'":
            quote = ch
        elif source.startswith(closer, i):
            return i
        elif ch == "-" and source.startswith(closer, i + 1):
            return i + 1
        i += 1
    raise TemplateSyntaxError(f"unclosed tag, expected {closer!r}")


# ---------------------------------------------------------------------------
# Expression parser -> closures
# ---------------------------------------------------------------------------


class _Parser:
    def __init__(self, tokens: list[tuple[str, Any]], env: "Environment"):
        self.tokens = tokens
        self.i = 0
        self.env = env

    # token helpers
    def peek(self) -> tuple[str, Any]:
        return self.tokens[self.i]

    def next(self) -> tuple[str, Any]:
        tok = self.tokens[self.i]
        self.i += 1
        return tok

    def at(self, kind: str, val: Any = None) -> bool:
        k, v = self.tokens[self.i]
        return k == kind and (val is None or v == val)

    def accept(self, kind: str, val: Any = None) -> bool:
        if self.at(kind, val):
            self.i += 1
            return True
        return False

    def expect(self, kind: str, val: Any = None) -> Any:
        if not self.at(kind, val):
            raise TemplateSyntaxError(f"expected {kind} {val!r}, got {self.peek()!r}")
        return self.next()[1]

    def at_end(self) -> bool:
        return self.at("eof")

    # grammar
    def parse_expression(self, with_condexpr: bool = True):
        if with_condexpr:
            return self.parse_condexpr()
        return self.parse_or()

    def parse_condexpr(self):
        expr1 = self.parse_or()
        while self.at("name", "if"):
            self.next()
            cond = self.parse_or()
            if self.accept("name", "else"):
                expr3 = self.parse_condexpr()
            else:
                expr3 = None
            e1, c, e3 = expr1, cond, expr3

            def run(ctx, e1=e1, c=c, e3=e3):
                if c(ctx):
                    return e1(ctx)
                return e3(ctx) if e3 is not None else Undefined("<inline if>")

            expr1 = run
        return expr1

    def parse_or(self):
        left = self.parse_and()
        while self.accept("name", "or"):
            right = self.parse_and()
            left = (lambda l, r: lambda ctx: l(ctx) or r(ctx))(left, right)
        return left

    def parse_and(self):
        left = self.parse_not()
        while self.accept("name", "and"):
            right = self.parse_not()
            left = (lambda l, r: lambda ctx: l(ctx) and r(ctx))(left, right)
        return left

    def parse_not(self):
        if self.accept("name", "not"):
            inner = self.parse_not()
            return lambda ctx: not inner(ctx)
        return self.parse_compare()

    _CMP = {
        "==": lambda a, b: a == b,
        "!=": lambda a, b: a != b,
        "<": lambda a, b: a < b,
        ">": lambda a, b: a > b,
        "<=": lambda a, b: a <= b,
        ">=": lambda a, b: a >= b,
    }

    def parse_compare(self):
        left = self.parse_math1()
        ops = []
        while True:
            k, v = self.peek()
            if k == "op" and v in self._CMP:
                self.next()
                ops.append((self._CMP[v], self.parse_math1()))
            elif k == "name" and v == "in":
                self.next()
                ops.append((lambda a, b: a in b, self.parse_math1()))
            elif (
                k == "name"
                and v == "not"
                and self.tokens[self.i + 1] == ("name", "in")
            ):
                self.next()
                self.next()
                ops.append((lambda a, b: a not in b, self.parse_math1()))
            else:
                break
        if not ops:
            return left

        def run(ctx):
            cur = left(ctx)
            for fn, rhs in ops:
                other = rhs(ctx)
                if not fn(cur, other):
                    return False
                cur = other
            return True

        return run

    def parse_math1(self):
        left = self.parse_concat()
        while self.at("op", "+") or self.at("op", "-"):
            op = self.next()[1]
            right = self.parse_concat()
            if op == "+":
                left = (lambda l, r: lambda ctx: l(ctx) + r(ctx))(left, right)
            else:
                left = (lambda l, r: lambda ctx: l(ctx) - r(ctx))(left, right)
        return left

    def parse_concat(self):
        parts = [self.parse_math2()]
        while self.accept("op", "~"):
            parts.append(self.parse_math2())
        if len(parts) == 1:
            return parts[0]
        return lambda ctx: "".join(str(p(ctx)) for p in parts)

    def parse_math2(self):
        left = self.parse_pow()
        while self.at("op") and self.peek()[1] in ("*", "/", "//", "%"):
            op = self.next()[1]
            right = self.parse_pow()
            fn = {
                "*": lambda a, b: a * b,
                "/": lambda a, b: a / b,
                "//": lambda a, b: a // b,
                "%": lambda a, b: a % b,
            }[op]
            left = (lambda l, r, fn: lambda ctx: fn(l(ctx), r(ctx)))(left, right, fn)
        return left

    def parse_pow(self):
        left = self.parse_unary()
        while self.accept("op", "**"):
            right = self.parse_unary()
            left = (lambda l, r: lambda ctx: l(ctx) ** r(ctx))(left, right)
        return left

    def parse_unary(self, with_filter: bool = True):
        if self.accept("op", "-"):
            inner = self.parse_unary(False)
            node = lambda ctx: -inner(ctx)  # noqa: E731
        elif self.accept("op", "+"):
            inner = self.parse_unary(False)
            node = lambda ctx: +inner(ctx)  # noqa: E731
        else:
            node = self.parse_primary()
        node = self.parse_postfix(node)
        if with_filter:
            node = self.parse_filter_expr(node)
        return node

    def parse_primary(self):
        k, v = self.next()
        if k == "name":
            if v in ("true", "True"):
                return lambda ctx: True
            if v in ("false", "False"):
                return lambda ctx: False
            if v in ("none", "None"):
                return lambda ctx: None
            return lambda ctx, v=v: ctx.resolve(v)
        if k == "str":
            # adjacent string literals concatenate
            while self.at("str"):
                v += self.next()[1]
            return lambda ctx, v=v: v
        if k in ("int", "float"):
            return lambda ctx, v=v: v
        if k == "op" and v == "(":
            return self.parse_tuple(explicit_parens=True)
        if k == "op" and v == "[":
            items = []
            while not self.at("op", "]"):
                items.append(self.parse_expression())
                if not self.accept("op", ","):
                    break
            self.expect("op", "]")
            return lambda ctx: [it(ctx) for it in items]
        if k == "op" and v == "{":
            pairs = []
            while not self.at("op", "}"):
                key = self.parse_expression()
                self.expect("op", ":")
                pairs.append((key, self.parse_expression()))
                if not self.accept("op", ","):
                    break
            self.expect("op", "}")
            return lambda ctx: {a(ctx): b(ctx) for a, b in pairs}
        raise TemplateSyntaxError(f"unexpected token {k} {v!r}")

    def parse_tuple(self, explicit_parens: bool):
        items = []
        is_tuple = False
        while not self.at("op", ")"):
            items.append(self.parse_expression())
            if self.accept("op", ","):
                is_tuple = True
            else:
                break
        self.expect("op", ")")
        if not is_tuple and len(items) == 1:
            return items[0]
        return lambda ctx: tuple(it(ctx) for it in items)

    def parse_postfix(self, node):
        while True:
            if self.at("op", "."):
                self.next()
                k, v = self.next()
                if k == "name":
                    node = (
                        lambda n, v: lambda ctx: self.env.getattr(n(ctx), v)
                    )(node, v)
                elif k == "int":
                    node = (
                        lambda n, v: lambda ctx: self.env.getitem(n(ctx), v)
                    )(node, v)
                else:
                    raise TemplateSyntaxError("expected name or number")
            elif self.at("op", "["):
                self.next()
                arg = self.parse_expression()
                self.expect("op", "]")
                node = (
                    lambda n, a: lambda ctx: self.env.getitem(n(ctx), a(ctx))
                )(node, arg)
            elif self.at("op", "("):
                args, kwargs = self.parse_call_args()
                node = (
                    lambda n, args, kwargs: lambda ctx: n(ctx)(
                        *[a(ctx) for a in args],
                        **{k: a(ctx) for k, a in kwargs},
                    )
                )(node, args, kwargs)
            else:
                return node

    def parse_call_args(self):
        self.expect("op", "(")
        args = []
        kwargs = []
        while not self.at("op", ")"):
            if (
                self.at("name")
                and self.tokens[self.i + 1] == ("op", "=")
            ):
                key = self.next()[1]
                self.next()
                kwargs.append((key, self.parse_expression()))
            else:
                args.append(self.parse_expression())
            if not self.accept("op", ","):
                break
        self.expect("op", ")")
        return args, kwargs

    def parse_filter_expr(self, node):
        while True:
            if self.at("op", "|"):
                node = self.parse_filter(node)
            elif self.at("name", "is"):
                node = self.parse_test(node)
            elif self.at("op", "("):
                node = self.parse_postfix(node)
            else:
                return node

    def parse_filter(self, node, start_inline: bool = False):
        while self.at("op", "|") or start_inline:
            if not start_inline:
                self.next()
            start_inline = False
            name = self.expect("name")
            while self.accept("op", "."):
                name += "." + self.expect("name")
            if self.at("op", "("):
                args, kwargs = self.parse_call_args()
            else:
                args, kwargs = [], []
            if name not in self.env.filters:
                raise TemplateSyntaxError(f"No filter named {name!r}")

            def run(ctx, n=node, name=name, args=args, kwargs=kwargs):
                func = self.env.filters[name]
                return func(
                    n(ctx) if n is not None else ctx.pop_filter_input(),
                    *[a(ctx) for a in args],
                    **{k: a(ctx) for k, a in kwargs},
                )

            node = run
        return node

    def parse_test(self, node):
        self.expect("name", "is")
        negated = self.accept("name", "not")
        name = self.expect("name")
        args = []
        if self.at("op", "("):
            args, _ = self.parse_call_args()
        elif self.peek()[0] in ("str", "int", "float") or (
            self.at("name")
            and self.peek()[1] not in ("else", "or", "and", "if", "is", "not", "in")
        ):
            args = [self.parse_unary(False)]
        if name not in self.env.tests:
            raise TemplateSyntaxError(f"No test named {name!r}")

        def run(ctx, n=node, name=name, args=args, negated=negated):
            rv = bool(self.env.tests[name](n(ctx), *[a(ctx) for a in args]))
            return not rv if negated else rv

        return run

    def parse_assign_target(self):
        names = [self.expect("name")]
        while self.accept("op", ","):
            names.append(self.expect("name"))
        return names


# ---------------------------------------------------------------------------
# Context
# ---------------------------------------------------------------------------


class _Context:
    """A chain of scopes. The last scope is the innermost."""

    def __init__(self, env: "Environment", scopes: list[dict]):
        self.env = env
        self.scopes = scopes
        self._filter_inputs: list[str] = []

    def resolve(self, name: str) -> Any:
        for scope in reversed(self.scopes):
            if name in scope:
                return scope[name]
        if name in self.env.globals:
            return self.env.globals[name]
        return Undefined(name)

    def set(self, name: str, value: Any) -> None:
        self.scopes[-1][name] = value

    def push(self, scope: dict | None = None) -> None:
        self.scopes.append(scope if scope is not None else {})

    def pop(self) -> None:
        self.scopes.pop()

    def flatten(self) -> dict:
        out: dict = {}
        for scope in self.scopes:
            out.update(scope)
        return out

    def pop_filter_input(self) -> str:
        return self._filter_inputs.pop()


# ---------------------------------------------------------------------------
# Statement nodes
# ---------------------------------------------------------------------------


def _render_nodes(nodes: list, ctx: _Context, out: list[str]) -> None:
    for node in nodes:
        node(ctx, out)


def _to_str(value: Any) -> str:
    return value if isinstance(value, str) else str(value)


class Template:
    def __init__(self, env: "Environment", source: str, name: str | None = None):
        self.env = env
        self.name = name
        if source.endswith("\n"):  # keep_trailing_newline=False
            source = source[:-1]
            if source.endswith("\r"):
                source = source[:-1]
        self._chunks = _lex(source)
        self._pos = 0
        self._nodes = self._parse_until(())
        if self._pos != len(self._chunks):
            raise TemplateSyntaxError("unexpected end tag")

    # --- statement parsing -------------------------------------------------
    def _parse_until(self, end_names: tuple[str, ...]):
        nodes = []
        while self._pos < len(self._chunks):
            kind, payload = self._chunks[self._pos]
            if kind == "data":
                self._pos += 1
                nodes.append((lambda d: lambda ctx, out: out.append(d))(payload))
            elif kind == "var":
                self._pos += 1
                p = _Parser(payload, self.env)
                expr = p.parse_expression()
                if p.at("op", ","):  # implicit tuple
                    items = [expr]
                    while p.accept("op", ","):
                        if p.at_end():
                            break
                        items.append(p.parse_expression())
                    expr = (lambda its: lambda ctx: tuple(i(ctx) for i in its))(items)
                if not p.at_end():
                    raise TemplateSyntaxError(f"trailing tokens in {payload!r}")
                nodes.append(
                    (lambda e: lambda ctx, out: out.append(_to_str(e(ctx))))(expr)
                )
            else:
                name = payload[0][1] if payload[0][0] == "name" else None
                if name in end_names:
                    return nodes
                self._pos += 1
                nodes.append(self._parse_block(name, payload))
        if end_names:
            raise TemplateSyntaxError(f"missing end tag, expected one of {end_names}")
        return nodes

    def _end(self, *names: str) -> tuple[str, _Parser]:
        kind, payload = self._chunks[self._pos]
        self._pos += 1
        p = _Parser(payload, self.env)
        return p.expect("name"), p

    def _parse_block(self, name: str | None, payload: list):
        p = _Parser(payload, self.env)
        p.expect("name")
        method = getattr(self, f"_parse_{name}", None)
        if method is None:
            raise TemplateSyntaxError(f"unknown tag {name!r}")
        return method(p)

    def _parse_set(self, p: _Parser):
        names = p.parse_assign_target()
        if p.accept("op", "="):
            expr = p.parse_expression()
            if p.at("op", ","):
                items = [expr]
                while p.accept("op", ","):
                    items.append(p.parse_expression())
                expr = (lambda its: lambda ctx: tuple(i(ctx) for i in its))(items)
            if not p.at_end():
                raise TemplateSyntaxError("trailing tokens in set")

            def run(ctx, out, names=names, expr=expr):
                value = expr(ctx)
                if len(names) == 1:
                    ctx.set(names[0], value)
                else:
                    for n, v in zip(names, value, strict=True):
                        ctx.set(n, v)

            return run

        # block set, optional filter
        filt = None
        if p.at("op", "|"):
            filt = p.parse_filter(None)
        if not p.at_end():
            raise TemplateSyntaxError("trailing tokens in block set")
        body = self._parse_until(("endset",))
        self._end()

        def run_block(ctx, out, names=names, body=body, filt=filt):
            buf: list[str] = []
            ctx.push()
            try:
                _render_nodes(body, ctx, buf)
            finally:
                ctx.pop()
            value: Any = "".join(buf)
            if filt is not None:
                ctx._filter_inputs.append(value)
                value = filt(ctx)
            ctx.set(names[0], value)

        return run_block

    def _parse_if(self, p: _Parser):
        branches = []
        cond = p.parse_expression()
        if not p.at_end():
            raise TemplateSyntaxError("trailing tokens in if")
        else_body = None
        while True:
            body = self._parse_until(("elif", "else", "endif"))
            branches.append((cond, body))
            tag, tp = self._end()
            if tag == "elif":
                cond = tp.parse_expression()
                continue
            if tag == "else":
                else_body = self._parse_until(("endif",))
                self._end()
            break

        def run(ctx, out):
            for c, body in branches:
                if c(ctx):
                    _render_nodes(body, ctx, out)
                    return
            if else_body is not None:
                _render_nodes(else_body, ctx, out)

        return run

    def _parse_for(self, p: _Parser):
        targets = p.parse_assign_target()
        p.expect("name", "in")
        iterable = p.parse_expression(with_condexpr=False)
        test = None
        if p.accept("name", "if"):
            test = p.parse_expression()
        recursive = p.accept("name", "recursive")
        if recursive or not p.at_end():
            raise TemplateSyntaxError("unsupported for-loop syntax")
        body = self._parse_until(("else", "endfor"))
        tag, _ = self._end()
        else_body = None
        if tag == "else":
            else_body = self._parse_until(("endfor",))
            self._end()

        def bind(ctx, item):
            if len(targets) == 1:
                ctx.set(targets[0], item)
            else:
                values = tuple(item)
                if len(values) != len(targets):
                    raise ValueError("unpack mismatch in for loop")
                for n, v in zip(targets, values):
                    ctx.set(n, v)

        def run(ctx, out):
            items = list(iterable(ctx))
            if test is not None:
                kept = []
                for item in items:
                    ctx.push()
                    try:
                        bind(ctx, item)
                        if test(ctx):
                            kept.append(item)
                    finally:
                        ctx.pop()
                items = kept
            if not items:
                if else_body is not None:
                    _render_nodes(else_body, ctx, out)
                return
            length = len(items)
            for index, item in enumerate(items):
                ctx.push()
                try:
                    bind(ctx, item)
                    ctx.set("loop", _Loop(index, length, items))
                    _render_nodes(body, ctx, out)
                finally:
                    ctx.pop()

        return run

    def _parse_include(self, p: _Parser):
        target = p.parse_expression()
        if not p.at_end():
            raise TemplateSyntaxError("unsupported include options")

        def run(ctx, out):
            name = target(ctx)
            tpl = self.env.get_template(name)
            inner = _Context(self.env, [ctx.flatten()])
            _render_nodes(tpl._nodes, inner, out)

        return run

    def _parse_filter(self, p: _Parser):
        filt = p.parse_filter(None, start_inline=True)
        if not p.at_end():
            raise TemplateSyntaxError("trailing tokens in filter")
        body = self._parse_until(("endfilter",))
        self._end()

        def run(ctx, out):
            buf: list[str] = []
            ctx.push()
            try:
                _render_nodes(body, ctx, buf)
            finally:
                ctx.pop()
            ctx._filter_inputs.append("".join(buf))
            out.append(_to_str(filt(ctx)))

        return run

    def _parse_with(self, p: _Parser):
        assigns = []
        while not p.at_end():
            name = p.expect("name")
            p.expect("op", "=")
            assigns.append((name, p.parse_expression()))
            if not p.accept("op", ","):
                break
        if not p.at_end():
            raise TemplateSyntaxError("trailing tokens in with")
        body = self._parse_until(("endwith",))
        self._end()

        def run(ctx, out):
            values = {n: e(ctx) for n, e in assigns}
            ctx.push(values)
            try:
                _render_nodes(body, ctx, out)
            finally:
                ctx.pop()

        return run

    # --- rendering ----------------------------------------------------------
    def render(self, *args: Any, **kwargs: Any) -> str:
        variables = dict(*args, **kwargs)
        ctx = _Context(self.env, [variables])
        out: list[str] = []
        _render_nodes(self._nodes, ctx, out)
        return "".join(out)


class _Loop:
    def __init__(self, index0: int, length: int, items: list):
        self.index0 = index0
        self.index = index0 + 1
        self.length = length
        self.first = index0 == 0
        self.last = index0 == length - 1
        self.revindex = length - index0
        self.revindex0 = length - index0 - 1
        self.previtem = items[index0 - 1] if index0 else Undefined("previtem")
        self.nextitem = (
            items[index0 + 1] if index0 + 1 < length else Undefined("nextitem")
        )


# ---------------------------------------------------------------------------
# Builtin filters / tests
# ---------------------------------------------------------------------------


def _do_default(value: Any, default_value: Any = "", boolean: bool = False) -> Any:
    if isinstance(value, Undefined) or (boolean and not value):
        return default_value
    return value


def _do_join(value: Any, d: str = "", attribute: Any = None) -> str:
    if attribute is not None:
        value = [_attr_path(v, attribute) for v in value]
    return str(d).join(str(v) for v in value)


def _do_indent(
    s: str, width: int | str = 4, first: bool = False, blank: bool = False
) -> str:
    indention = width if isinstance(width, str) else " " * width
    newline = "\n"
    s = str(s) + newline
    if blank:
        rv = (newline + indention).join(s.splitlines())
    else:
        lines = s.splitlines()
        rv = lines.pop(0)
        if lines:
            rv += newline + newline.join(
                indention + line if line else line for line in lines
            )
    if first:
        rv = indention + rv
    return rv


def _attr_path(obj: Any, attribute: Any) -> Any:
    if isinstance(attribute, int):
        return obj[attribute]
    for part in str(attribute).split("."):
        if part.isdigit():
            obj = obj[int(part)]
        else:
            obj = Environment.getattr(None, obj, part)  # type: ignore[arg-type]
    return obj


_GroupTuple = namedtuple("_GroupTuple", ["grouper", "list"])


def _do_groupby(value: Any, attribute: Any, default: Any = None) -> list:
    def key(item: Any) -> Any:
        rv = _attr_path(item, attribute)
        if isinstance(rv, Undefined) and default is not None:
            return default
        return rv

    return [
        _GroupTuple(k, list(g))
        for k, g in itertools.groupby(sorted(value, key=key), key)
    ]


_DEFAULT_FILTERS = {
    "default": _do_default,
    "d": _do_default,
    "join": _do_join,
    "indent": _do_indent,
    "length": len,
    "count": len,
    "groupby": _do_groupby,
    "upper": lambda s: str(s).upper(),
    "lower": lambda s: str(s).lower(),
    "trim": lambda s, chars=None: str(s).strip(chars),
    "string": lambda s: str(s),
    "list": lambda v: list(v),
    "first": lambda v: next(iter(v), Undefined("first")),
    "last": lambda v: (list(v) or [Undefined("last")])[-1],
    "replace": lambda s, old, new, count=None: (
        str(s).replace(old, new) if count is None else str(s).replace(old, new, count)
    ),
    "format": lambda s, *a, **k: str(s) % (k or a),
}

_DEFAULT_TESTS = {
    "none": lambda v: v is None,
    "defined": lambda v: not isinstance(v, Undefined),
    "undefined": lambda v: isinstance(v, Undefined),
    "string": lambda v: isinstance(v, str),
    "number": lambda v: isinstance(v, (int, float)) and not isinstance(v, bool),
    "true": lambda v: v is True,
    "false": lambda v: v is False,
    "boolean": lambda v: v is True or v is False,
    "sameas": lambda v, o: v is o,
    "equalto": lambda v, o: v == o,
    "eq": lambda v, o: v == o,
    "ne": lambda v, o: v != o,
    "in": lambda v, seq: v in seq,
    "iterable": lambda v: hasattr(v, "__iter__"),
    "mapping": lambda v: isinstance(v, dict),
    "sequence": lambda v: hasattr(v, "__len__") and hasattr(v, "__getitem__"),
    "even": lambda v: v % 2 == 0,
    "odd": lambda v: v % 2 == 1,
}


# ---------------------------------------------------------------------------
# Environment / loaders
# ---------------------------------------------------------------------------


class BaseLoader:
    def get_source(self, environment: "Environment", template: str) -> str:
        raise TemplateNotFound(template)


class FileSystemLoader(BaseLoader):
    def __init__(self, searchpath: Any, encoding: str = "utf-8", **_: Any):
        if isinstance(searchpath, (str, os.PathLike)):
            searchpath = [searchpath]
        self.searchpath = [os.fspath(p) for p in searchpath]
        self.encoding = encoding

    def get_source(self, environment: "Environment", template: str) -> str:
        for base in self.searchpath:
            path = os.path.join(base, *template.split("/"))
            if os.path.isfile(path):
                with open(path, encoding=self.encoding, newline="") as fp:
                    return fp.read().replace("\r\n", "\n").replace("\r", "\n")
        raise TemplateNotFound(template)


class DictLoader(BaseLoader):
    def __init__(self, mapping: dict[str, str]):
        self.mapping = mapping

    def get_source(self, environment: "Environment", template: str) -> str:
        if template in self.mapping:
            return self.mapping[template]
        raise TemplateNotFound(template)


class Environment:
    def __init__(
        self,
        loader: BaseLoader | None = None,
        autoescape: Any = False,
        trim_blocks: bool = False,
        lstrip_blocks: bool = False,
        keep_trailing_newline: bool = False,
        **_: Any,
    ):
        if autoescape or trim_blocks or lstrip_blocks or keep_trailing_newline:
            raise NotImplementedError("unsupported Environment option in verif shim")
        self.loader = loader
        self.filters: dict[str, Any] = dict(_DEFAULT_FILTERS)
        self.tests: dict[str, Any] = dict(_DEFAULT_TESTS)
        self.globals: dict[str, Any] = {
            "range": range,
            "dict": dict,
        }
        self._cache: dict[str, Template] = {}

    def getattr(self, obj: Any, attribute: str) -> Any:
        try:
            return getattr(obj, attribute)
        except AttributeError:
            pass
        try:
            return obj[attribute]
        except (TypeError, LookupError, AttributeError):
            if isinstance(obj, Undefined):
                obj._fail()
            return Undefined(attribute)

    def getitem(self, obj: Any, argument: Any) -> Any:
        try:
            return obj[argument]
        except (AttributeError, TypeError, LookupError):
            if isinstance(argument, str):
                try:
                    return getattr(obj, argument)
                except AttributeError:
                    pass
            if isinstance(obj, Undefined):
                obj._fail()
            return Undefined(str(argument))

    def get_template(self, name: str, *_: Any, **__: Any) -> Template:
        if isinstance(name, Template):
            return name
        tpl = self._cache.get(name)
        if tpl is None:
            if self.loader is None:
                raise TemplateNotFound(name)
            source = self.loader.get_source(self, name)
            tpl = Template(self, source, name)
            self._cache[name] = tpl
        return tpl

    def from_string(self, source: str) -> Template:
        return Template(self, source)
