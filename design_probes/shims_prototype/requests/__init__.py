"""Import-only stand-in for `requests` (verification harness). No network."""
class Response:
    status_code = 200
    content = b""
    def raise_for_status(self):
        raise RuntimeError(f"HTTP {self.status_code}")
class Session:
    def get(self, *a, **k):
        raise RuntimeError("network disabled in verification harness")
    post = get
