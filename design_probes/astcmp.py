import ast, subprocess, sys
def norm(src):
    tree = ast.parse(src)
    class T(ast.NodeTransformer):
        def visit_Module(self, node):
            self.generic_visit(node)
            node.body = [n for n in node.body if not isinstance(n, (ast.Import, ast.ImportFrom))]
            return node
        def visit_Expr(self, node):
            # normalise docstrings whitespace
            if isinstance(node.value, ast.Constant) and isinstance(node.value.value, str):
                node.value.value = " ".join(node.value.value.split())
            return node
    tree = T().visit(tree)
    return ast.dump(tree)
files = [l[3:] for l in subprocess.run(["git","status","--short"],capture_output=True,text=True).stdout.splitlines() if l.startswith(" M") and l.endswith(".py")]
same=diff=0
for f in files:
    old = subprocess.run(["git","show",f"HEAD:{f}"],capture_output=True,text=True).stdout
    new = open(f).read()
    try:
        a,b = norm(old), norm(new)
    except SyntaxError as e:
        print("SYNTAX", f, e); diff+=1; continue
    if a==b: same+=1
    else:
        diff+=1; print("DIFF", f)
print("same",same,"diff",diff)
