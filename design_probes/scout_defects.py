"""Design-phase scouting probes (NOT part of the verification framework).

Run: /venv/bin/python /verif/design_probes/scout_defects.py
Each block reproduces, against the real code in /repo, a behaviour that one of the
given properties forbids.  The outputs observed on the pinned tree are summarised in
DESIGN.md section 7 ("Defects already observed").  Nothing here is wired into
MANIFEST.json.
"""

import sys
import tempfile
import textwrap
from dataclasses import dataclass, field
from pathlib import Path

from xsdata.formats.dataclass.context import XmlContext
from xsdata.formats.dataclass.parsers import XmlParser
from xsdata.formats.dataclass.parsers.handlers import LxmlEventHandler, XmlEventHandler
from xsdata.formats.dataclass.serializers import PycodeSerializer, XmlSerializer
from xsdata.formats.dataclass.serializers.config import SerializerConfig
from xsdata.formats.dataclass.serializers.writers import LxmlEventWriter, XmlEventWriter
from xsdata.models.datatype import XmlDate, XmlDateTime

CFG = SerializerConfig(xml_declaration=False)


def show(title, fn):
    try:
        print(f"{title}: {fn()!r}")
    except Exception as exc:  # noqa: BLE001 - scouting
        print(f"{title}: EXC {type(exc).__name__}: {exc}")


print("== C06 dates")
for s in ("2021-02-30", "2021-13-01", "2021-00-10", "2021-+1-01"):
    show(f"XmlDate.from_string({s!r})", lambda s=s: XmlDate.from_string(s))
a, b = XmlDateTime(2021, 1, 31, 10, 29, 3), XmlDateTime(2021, 2, 1, 0, 0, 0)
print("distinct instants equal:", a == b, "| later<earlier:", XmlDateTime(2021, 1, 31, 12, 0, 0) > b)
print("nanoseconds ignored:", XmlDateTime(2021, 1, 1, 0, 0, 0, 1) == XmlDateTime(2021, 1, 1, 0, 0, 0, 2))
print(
    "same instant, other offset, unequal:",
    XmlDateTime(2021, 1, 1, 0, 0, 0, offset=60) != XmlDateTime(2020, 12, 31, 23, 0, 0, offset=0),
)

print("== C03 prefixes / hostile text")


@dataclass
class Root:
    class Meta:
        namespace = "urn:a"

    attr: str = field(default="x", metadata={"type": "Attribute", "namespace": "urn:b"})
    child: str = field(default="c", metadata={"type": "Element", "namespace": "urn:c"})


for writer in (XmlEventWriter, LxmlEventWriter):
    for ns_map in ({"ns1": "urn:a"}, {"xml": "urn:a"}, {"a b": "urn:a"}):
        show(
            f"{writer.__name__} ns_map={ns_map}",
            lambda w=writer, m=ns_map: XmlSerializer(config=CFG, writer=w).render(Root(), ns_map=m),
        )


@dataclass
class R:
    a: str = field(default=None, metadata={"type": "Element"})


for val in ("a\rb", "a\x0bb", "￾"):
    show(f"native writer text {val!r}", lambda v=val: XmlSerializer(config=CFG, writer=XmlEventWriter).render(R(a=v)))
show(
    "native writer \\r round trip equal",
    lambda: XmlParser().from_string(XmlSerializer(config=CFG, writer=XmlEventWriter).render(R(a="a\rb")), R) == R(a="a\rb"),
)

print("== C09 processing instruction inside text")
for handler in (XmlEventHandler, LxmlEventHandler):
    show(handler.__name__, lambda h=handler: XmlParser(handler=h).from_string("<R><a>12<?pi x?>3</a></R>", R))

print("== C14 cache keyed by class only / C18 pycode")
src = textwrap.dedent(
    '''
    from dataclasses import dataclass, field
    from enum import Enum
    from xml.etree.ElementTree import QName

    @dataclass
    class Shared:
        v: str = field(default="x", metadata={"type": "Element"})

    @dataclass
    class A:
        class Meta:
            namespace = "urn:a"
        s: Shared = field(default=None, metadata={"type": "Element"})

    @dataclass
    class B:
        class Meta:
            namespace = "urn:b"
        s: Shared = field(default=None, metadata={"type": "Element"})

    @dataclass(frozen=True)
    class Fro:
        xs: tuple[int, ...] = field(default_factory=tuple)

    @dataclass
    class Outer:
        @dataclass
        class Inner:
            class Kind(Enum):
                A = "a"
            k: "Outer.Inner.Kind" = None
        i: Inner = None
        q: QName = None
    '''
)
tmp = Path(tempfile.mkdtemp())
(tmp / "scout_models.py").write_text(src)
sys.path.insert(0, str(tmp))
import scout_models as m  # noqa: E402

shared = XmlSerializer(context=XmlContext(), config=CFG)
print("shared A :", shared.render(m.A(s=m.Shared())))
print("shared B :", shared.render(m.B(s=m.Shared())))
print("fresh  B :", XmlSerializer(context=XmlContext(), config=CFG).render(m.B(s=m.Shared())))

ser = PycodeSerializer()
for obj in (m.Fro(xs=(1, 2)), m.Outer(i=m.Outer.Inner(k=m.Outer.Inner.Kind.A)), m.Outer(q=QName('{a"}b')) if (QName := __import__("xml.etree.ElementTree").etree.ElementTree.QName) else None):
    code = ser.render(obj, "x")
    ns: dict = {}
    try:
        exec(code, ns)  # noqa: S102 - scouting
        print(type(obj).__name__, "equal" if ns["x"] == obj else f"NOT equal -> {ns['x']!r}")
    except Exception as exc:  # noqa: BLE001
        print(type(obj).__name__, "EXC", type(exc).__name__, exc)
