"""Stand-in for the `toposort` package (verification harness, no network in the sandbox).

Re-implementation of the public API of toposort 1.10 (`toposort`, `toposort_flatten`,
`CircularDependencyError`) with the same algorithm: repeatedly peel off the set of items
that have no remaining dependency; `toposort_flatten(sort=True)` sorts each peeled set,
which is what makes the result independent of set iteration order. Like 1.8+, the input
mapping and its sets are not modified.
"""

from functools import reduce as _reduce

__all__ = ["toposort", "toposort_flatten", "CircularDependencyError"]
__version__ = "1.10+verif.standin"


class CircularDependencyError(ValueError):
    def __init__(self, data):
        # Sort the data just to make the output consistent, for use in error messages.
        s = "Circular dependencies exist among these items: {{{}}}".format(
            ", ".join("{!r}:{!r}".format(key, value) for key, value in sorted(data.items()))
        )
        super().__init__(s)
        self.data = data


def toposort(data):
    """Yield sets of items in topological order (dependencies first).

    `data` maps an item to the set of items it depends on.
    """
    if len(data) == 0:
        return
    # Copy two levels deep and drop self-dependencies.
    data = {item: set(e for e in dep if e != item) for item, dep in data.items()}
    # Items that only appear as a dependency depend on nothing.
    extra_items_in_deps = _reduce(set.union, data.values()) - set(data.keys())
    data.update({item: set() for item in extra_items_in_deps})
    while True:
        ordered = set(item for item, dep in data.items() if len(dep) == 0)
        if not ordered:
            break
        yield ordered
        data = {item: (dep - ordered) for item, dep in data.items() if item not in ordered}
    if len(data) != 0:
        raise CircularDependencyError(data)


def toposort_flatten(data, sort=True):
    """Flatten `toposort(data)` into one list; each level is sorted when `sort`."""
    result = []
    for d in toposort(data):
        result.extend((sorted if sort else list)(d))
    return result
