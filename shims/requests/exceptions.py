"""Exception hierarchy subset of requests.exceptions (stand-in)."""


class RequestException(IOError):
    def __init__(self, *args, **kwargs):
        self.response = kwargs.pop("response", None)
        self.request = kwargs.pop("request", None)
        super().__init__(*args, **kwargs)


class HTTPError(RequestException):
    """An HTTP error occurred."""


class ConnectionError(RequestException):  # noqa: A001
    """A connection error occurred (the stand-in raises it for every request)."""


class Timeout(RequestException):
    """The request timed out."""
