"""Import-only stand-in for `requests` (verification harness; the sandbox has no network).

Only what `xsdata.formats.dataclass.transports` and its unit test touch exists:
`Response` (status_code / reason / url / content / raise_for_status with the real
library's message format), `Session` whose every request method refuses to talk,
`HTTPError` and the `requests.exceptions` module. Anything else is an AttributeError /
ImportError on purpose.
"""

from . import exceptions
from .exceptions import ConnectionError, HTTPError, RequestException  # noqa: A004

__version__ = "0+verif.standin"
__all__ = ["Response", "Session", "HTTPError", "RequestException", "ConnectionError", "exceptions"]


class Response:
    """Just enough of requests.Response for DefaultTransport.handle_response."""

    def __init__(self):
        self.status_code = None
        self.reason = None
        self.url = None
        self.headers = {}
        self.encoding = None
        self._content = b""

    @property
    def content(self):
        return self._content

    @property
    def ok(self):
        try:
            self.raise_for_status()
        except HTTPError:
            return False
        return True

    def raise_for_status(self):
        """Same branches and message format as requests.Response.raise_for_status."""
        http_error_msg = ""
        reason = self.reason
        if isinstance(reason, bytes):
            try:
                reason = reason.decode("utf-8")
            except UnicodeDecodeError:
                reason = reason.decode("iso-8859-1")
        if self.status_code is not None and 400 <= self.status_code < 500:
            http_error_msg = f"{self.status_code} Client Error: {reason} for url: {self.url}"
        elif self.status_code is not None and 500 <= self.status_code < 600:
            http_error_msg = f"{self.status_code} Server Error: {reason} for url: {self.url}"
        if http_error_msg:
            raise HTTPError(http_error_msg, response=self)


class Session:
    """A session that never opens a connection."""

    def __init__(self):
        self.headers = {}

    def request(self, method, url, **kwargs):
        raise ConnectionError(
            f"requests stand-in of the verification harness: network access is disabled "
            f"({method} {url})"
        )

    def get(self, url, **kwargs):
        return self.request("GET", url, **kwargs)

    def post(self, url, data=None, json=None, **kwargs):
        return self.request("POST", url, data=data, json=json, **kwargs)

    def put(self, url, data=None, **kwargs):
        return self.request("PUT", url, data=data, **kwargs)

    def head(self, url, **kwargs):
        return self.request("HEAD", url, **kwargs)

    def delete(self, url, **kwargs):
        return self.request("DELETE", url, **kwargs)

    def close(self):
        pass

    def __enter__(self):
        return self

    def __exit__(self, *args):
        self.close()
