"""Conformance self-test of the jinja2 stand-in (../shims/jinja2), independent of xsdata.

Every case is a hand-written template with the rendering that *real* Jinja2 3.1 with
`Environment(autoescape=False)` (trim_blocks=False, lstrip_blocks=False,
keep_trailing_newline=False — what xsdata's DataclassGenerator configures) produces,
derived from the Jinja2 documentation / source, not from running the stand-in. Together
they cover every construct used by xsdata/formats/dataclass/templates/*.jinja2.

Run:  PYTHONPATH=/verif/shims /venv/bin/python /verif/shims/selftest.py [-v]
Exit status 0 iff every case passes; prints a one-line summary.
"""

from __future__ import annotations

import os
import sys
import tempfile
from types import SimpleNamespace as NS

sys.dont_write_bytecode = True
sys.path.insert(0, os.path.dirname(os.path.abspath(__file__)))

import jinja2  # noqa: E402
from jinja2 import (  # noqa: E402
    DictLoader,
    Environment,
    FileSystemLoader,
    TemplateNotFound,
    TemplateSyntaxError,
    UndefinedError,
)

if "verif.standin" not in getattr(jinja2, "__version__", ""):
    print(f"selftest: note: testing {jinja2.__file__} (not the stand-in)")

TEMPLATES = {
    "inc": "I({{ v }})",
    "inc_nl": "X\n",
    "inc_loop": "{{ i }}{{ loop.index }}",
    "inc_set": "{% set q = 9 %}{{ q }}",
    "doc.google.j2": "G:{{ obj.help }}",
    "doc.rst.j2": "R:{{ obj.help }}",
    "doc.blank.j2": "",
    "tree": (
        "{% set level = level|default(0) -%}\n"
        "{{ level }}{{ node.name }}"
        "{%- for c in node.children %}"
        "{%- with node=c, level=(level + 1) -%}"
        "[{% include 'tree' %}]"
        "{%- endwith -%}"
        "{%- endfor -%}\n"
    ),
    "uses_parent_set": "{{ parent_ns|default('none') }}",
}


def class_name(value):
    return "".join(part.capitalize() for part in str(value).split("_"))


def constant_name(value, owner):
    return f"{owner}_{value}".upper()


def wrap(value, width, subsequent_indent="  ", key=None):
    return f"<{width}|{subsequent_indent}|{key}|{value}>"


def make_env(**kw):
    env = Environment(loader=DictLoader(TEMPLATES), autoescape=False, **kw)
    env.filters.update({"class_name": class_name, "constant_name": constant_name, "wrap": wrap})
    env.globals.update({"docstring_name": "google", "shout": lambda s, times=1: str(s).upper() * times})
    return env


I = lambda source, name, alias=None: NS(source=source, name=name, alias=alias)  # noqa: E731
TREE = {"name": "a", "children": [{"name": "b", "children": [{"name": "c", "children": []}]}, {"name": "d", "children": []}]}

CLASS_LIKE = (
    "class A:\n"
    "{%- if help %}\n"
    "    {{ help }}\n"
    "{%- endif -%}\n"
    "{%- for a in attrs %}\n"
    "    {{ a }}: int\n"
    "{%- endfor -%}\n"
)
PACKAGE_LIKE = (
    '"\n'
    "    {%- if alias %}\n"
    "        {{- alias -}}\n"
    "    {% else %}\n"
    "        {{- name -}}\n"
    "    {% endif -%}\n"
    '    ",'
)
IMPORTS_LIKE = (
    "{%- for source, items in imports|groupby(\"source\") -%}\n"
    "{%- if items|length == 1 -%}\n"
    "from {{ source }} import {{ items[0].name }}\n"
    "{% else -%}\n"
    "from {{ source }} import (\n"
    "{%- for item in items %}\n"
    "    {{ item.name }},\n"
    "{%- endfor %}\n"
    ")\n"
    "{% endif -%}\n"
    "{%- endfor %}\n"
)

# (name, template, context, expected)   expected: str, or an exception class
CASES = [
    # ---- data, variables, trailing newline
    ("data.plain", "hello {not a tag} %} }}", {}, "hello {not a tag} %} }}"),
    ("var.int", "{{ a }}", {"a": 1}, "1"),
    ("var.nospace", "{{a}}|{{  a  }}", {"a": "x"}, "x|x"),
    ("var.none_true", "{{ x }} {{ y }}", {"x": None, "y": True}, "None True"),
    ("var.float_div", "{{ 7 / 2 }}", {}, "3.5"),
    ("newline.single_trailing_removed", "a\n", {}, "a"),
    ("newline.only_one_removed", "a\n\n", {}, "a\n"),
    ("newline.inner_kept", "a\nb", {}, "a\nb"),
    ("comment.dropped", "a{# c {{ x }} #}b", {}, "ab"),
    ("comment.strip", "a  {#- c -#}  b", {}, "ab"),
    # ---- Undefined
    ("undef.prints_empty", "[{{ nope }}]", {}, "[]"),
    ("undef.missing_attr_prints_empty", "[{{ obj.nope }}]", {"obj": NS(a=1)}, "[]"),
    ("undef.falsy", "{% if nope %}y{% else %}n{% endif %}", {}, "n"),
    ("undef.iter_empty", "{% for x in nope %}x{% else %}empty{% endfor %}", {}, "empty"),
    ("undef.length_zero", "{{ nope|length }}", {}, "0"),
    ("undef.join_empty", "[{{ nope|join(',') }}]", {}, "[]"),
    ("undef.is_defined", "{{ nope is defined }}{{ nope is undefined }}{{ obj.x is defined }}", {"obj": NS(a=1)}, "FalseTrueFalse"),
    ("undef.attr_raises", "{{ nope.attr }}", {}, UndefinedError),
    ("undef.attr_of_missing_attr_raises", "{{ obj.nope.deeper }}", {"obj": NS(a=1)}, UndefinedError),
    ("undef.item_raises", "{{ nope['k'] }}", {}, UndefinedError),
    ("undef.add_raises", "{{ nope + 1 }}", {}, UndefinedError),
    ("undef.radd_raises", "{{ 'docstrings.' + nope + '.jinja2' }}", {}, UndefinedError),
    ("undef.call_raises", "{{ nope() }}", {}, UndefinedError),
    # ---- set
    ("set.simple", "{% set x = 3 %}{{ x + 1 }}", {}, "4"),
    ("set.tuple_targets", "{% set a, b = 1, 2 %}{{ a }}-{{ b }}", {}, "1-2"),
    ("set.odd_spacing_and_strip", "{%   set x=[1,2] | join(', ')-%}\n\n  {{ x }}", {}, "1, 2"),
    ("set.self_default", "{% set level = level|default(0) -%}\n{{ level }}", {}, "0"),
    ("set.self_default_given", "{% set level = level|default(0) -%}\n{{ level }}", {"level": 2}, "2"),
    ("set.in_if_leaks", "{% if true %}{% set v = 1 %}{% endif %}{{ v }}", {}, "1"),
    ("set.in_for_does_not_leak", "{% set x = 1 %}{% for i in [1, 2] %}{{ x }}{% set x = x + i %}{{ x }}{% endfor %}{{ x }}", {}, "12131"),
    ("set.in_if_in_for", "{% for i in [1, 2, 3] %}{% if i > 1 %}{% set m = 'big' %}{% else %}{% set m = 'small' %}{% endif %}{{ m }} {% endfor %}", {}, "small big big "),
    ("set.block", "{% set x %}ab{{ 1 }}{% endset %}[{{ x }}]", {}, "[ab1]"),
    ("set.block_filter", "{% set x | upper %}ab{% endset %}{{ x }}", {}, "AB"),
    ("set.block_filter_args", "{% set h | indent(n + 1, first=True) %}a\nb{% endset %}{{ h }}", {"n": 1}, "  a\n  b"),
    ("set.block_filter_chain", "{% set h | upper | replace('A', 'x') %}ab{% endset %}{{ h }}", {}, "xB"),
    ("set.block_empty_is_falsy", "{% set h | trim %}\n   {%- include 'doc.blank.j2' -%}\n{% endset -%}\n{% if h %}yes{% else %}no{% endif %}", {}, "no"),
    ("set.block_with_include", "{% set h | upper %}\n    {%- include 'doc.' + docstring_name + '.j2' -%}\n{% endset -%}\n[{{ h }}]", {"obj": NS(help="hi")}, "[G:HI]"),
    ("set.block_body_scoped", "{% set b %}{% set inner = 1 %}{{ inner }}{% endset %}{{ b }}[{{ inner }}]", {}, "1[]"),
    # ---- if
    ("if.elif_else.1", "{% if a == 1 %}one{% elif a == 2 %}two{% else %}many{% endif %}", {"a": 1}, "one"),
    ("if.elif_else.2", "{% if a == 1 %}one{% elif a == 2 %}two{% else %}many{% endif %}", {"a": 2}, "two"),
    ("if.elif_else.3", "{% if a == 1 %}one{% elif a == 2 %}two{% else %}many{% endif %}", {"a": 3}, "many"),
    ("if.no_trim_blocks", "{% if true %}\nx\n{% endif %}\n", {}, "\nx\n"),
    ("if.no_lstrip_blocks", "a\n    {% if true %}b{% endif %}", {}, "a\n    b"),
    ("if.complex_condition", "{% if n or o.nil or o.ns is not none or (o.local and level == 0) %}Y{% endif %}", {"n": None, "o": NS(nil=False, ns=None, local=True), "level": 0}, "Y"),
    ("if.elif_length", "{% if x %}x{% elif items|length == 0 and not help %}pass{% endif %}", {"items": [], "help": ""}, "pass"),
    # ---- whitespace control
    ("ws.left", "a  {%- if true %}  b  {%- endif %}  c", {}, "a  b  c"),
    ("ws.right", "a {% if true -%}  b  {%- endif -%}  c", {}, "a bc"),
    ("ws.var", "a \n {{- x -}} \n b", {"x": "X"}, "aXb"),
    ("ws.var_left_only", "a \n {{- x }} b", {"x": "X"}, "aX b"),
    ("ws.strips_newlines_too", "a\n\n\n{%- if true -%}\n\n b{% endif %}", {}, "ab"),
    ("ws.class_like", CLASS_LIKE, {"help": "doc", "attrs": ["x", "y"]}, "class A:\n    doc\n    x: int\n    y: int"),
    ("ws.class_like_nohelp", CLASS_LIKE, {"help": "", "attrs": ["x"]}, "class A:\n    x: int"),
    ("ws.package_like_alias", PACKAGE_LIKE, {"alias": "A", "name": "N"}, '"A",'),
    ("ws.package_like_name", PACKAGE_LIKE, {"alias": None, "name": "N"}, '"N",'),
    ("ws.minus_is_not_subtraction_confused", "{{ 3 - 1 }}{{ 3 -1 }}{{ -1 }}", {}, "22-1"),
    # ---- for
    ("for.simple", "{% for i in items %}{{ i }},{% endfor %}", {"items": [1, 2, 3]}, "1,2,3,"),
    ("for.filter_if", "{% for i in items if i % 2 %}{{ loop.index }}:{{ i }} {% endfor %}", {"items": [1, 2, 3, 4, 5]}, "1:1 2:3 3:5 "),
    ("for.filter_if_attr", "{%- for a in attrs if a.help %}\n{{ a.name }}={{ a.help }}\n{%- endfor -%}", {"attrs": [NS(name="x", help=None), NS(name="y", help="h")]}, "\ny=h"),
    ("for.loop_vars", "{% for i in 'abc' %}{{ loop.index0 }}{{ loop.first }}{{ loop.last }}{{ loop.length }}{{ loop.revindex }}{{ loop.revindex0 }};{% endfor %}", {}, "0TrueFalse332;1FalseFalse321;2FalseTrue310;"),
    ("for.loop_filtered_length", "{% for i in [1, 2, 3, 4] if i > 2 %}{{ loop.length }}{{ loop.last }}{% endfor %}", {}, "2False2True"),
    ("for.loop_prev_next", "{% for i in [1, 2, 3] %}({{ loop.previtem }}<{{ i }}>{{ loop.nextitem }}){% endfor %}", {}, "(<1>2)(1<2>3)(2<3>)"),
    ("for.loop_cycle_changed", "{% for i in [1, 1, 2] %}{{ loop.cycle('a', 'b') }}{{ loop.changed(i) }} {% endfor %}", {}, "aTrue bFalse aTrue "),
    ("for.else", "{% for i in [] %}x{% else %}empty{% endfor %}", {}, "empty"),
    ("for.else_all_filtered", "{% for i in [1] if i > 5 %}x{% else %}empty{% endfor %}", {}, "empty"),
    ("for.unpack", "{% for k, v in pairs %}{{ k }}={{ v }};{% endfor %}", {"pairs": [("a", 1), ("b", 2)]}, "a=1;b=2;"),
    ("for.unpack_filter_result", "{%- for var_name, var_doc in obj | pairs %}\n{{ '{}: {}'.format(var_name, var_doc) | wrap(offset) | indent(first=True) }}\n{%- endfor -%}", {"obj": {"a": "A"}, "offset": 7}, "\n    <7|  |None|a: A>"),
    ("for.unpack_mismatch", "{% for a, b in [(1,)] %}{% endfor %}", {}, ValueError),
    ("for.nested_loop_var", "{% for r in [[1, 2], [3]] %}{% for c in r %}{{ loop.index }}{% endfor %}/{{ loop.index }} {% endfor %}", {}, "12/1 1/2 "),
    ("for.range_global", "{% for i in range(3) %}{{ i }}{% endfor %}{{ range(2)|list }}", {}, "012[0, 1]"),
    ("for.target_scoped", "{% for i in [1] %}{% endfor %}[{{ i }}]", {}, "[]"),
    # ---- with
    ("with.basic", "{% with a = 1, b = 2 %}{{ a + b }}{% endwith %}[{{ a }}]", {}, "3[]"),
    ("with.shadows", "{% with obj=inner, level=(level + 1) -%}  {{ obj }}{{ level }}{%- endwith -%}  {{ obj }}{{ level }}", {"obj": "o", "inner": "i", "level": 0}, "i1o0"),
    ("with.set_scoped", "{% with %}{% set z = 1 %}{{ z }}{% endwith %}[{{ z }}]", {}, "1[]"),
    # ---- include
    ("include.static", "{% include 'inc' %}", {"v": 5}, "I(5)"),
    ("include.dynamic_name", "{% include 'doc.' + style + '.j2' %}", {"style": "rst", "obj": NS(help="h")}, "R:h"),
    ("include.name_from_set", "{%- set tpl = 'doc.rst.j2' if e else 'doc.google.j2' -%}{% include tpl %}", {"e": False, "obj": NS(help="h")}, "G:h"),
    ("include.trailing_newline_of_included", "a{% include 'inc_nl' %}b", {}, "aXb"),
    ("include.sees_loop_and_locals", "{% for i in [1, 2] %}{% include 'inc_loop' %}{% endfor %}", {}, "1122"),
    ("include.sees_toplevel_set", "{% set parent_ns = 'urn:x' %}{% include 'uses_parent_set' %}", {}, "urn:x"),
    ("include.sets_do_not_leak", "{% include 'inc_set' %}[{{ q }}]", {}, "9[]"),
    ("include.missing", "{% include 'does-not-exist' %}", {}, TemplateNotFound),
    ("include.undefined_name", "{% include nope %}", {}, UndefinedError),
    ("include.recursive_with", "{% include 'tree' %}", {"node": TREE}, "0a[1b[2c]][1d]"),
    ("include.in_filter_block_indent", "{%- filter indent(4) -%}\n    {%- with v='x\ny' -%}\n        {% include 'inc' %}\n    {%- endwith -%}\n{%- endfilter -%}", {}, "I(x\n    y)"),
    # ---- filter blocks
    ("filterblock.upper", "{% filter upper %}ab{{ 'c' }}{% endfilter %}", {}, "ABC"),
    ("filterblock.indent", "x:{% filter indent(4) %}a\nb\n\nc{% endfilter %}", {}, "x:a\n    b\n\n    c"),
    ("filterblock.chain", "{% filter upper|replace('A', 'x') %}ab{% endfilter %}", {}, "xB"),
    # ---- inline if
    ("inlineif.no_else_false", "[{{ 'x' if false }}]", {}, "[]"),
    ("inlineif.no_else_true", "[{{ 'x' if 1 }}]", {}, "[x]"),
    ("inlineif.else", "{{ 'x' if a else 'y' }}{{ 'x' if not a else 'y' }}", {"a": 0}, "yx"),
    ("inlineif.format_no_else", 'class C{{"({})".format(b) if b }}:', {"b": "B, D"}, "class C(B, D):"),
    ("inlineif.format_no_else_empty", 'class C{{"({})".format(b) if b }}:', {"b": ""}, "class C:"),
    ("inlineif.is_not_none_else_default", "{{ x if x is not none else y|default(None) }}", {"x": None}, "None"),
    ("inlineif.is_not_none_else_default2", "{{ x if x is not none else y|default(None) }}", {"x": None, "y": "p"}, "p"),
    ("inlineif.is_not_none_else_default3", "{{ x if x is not none else y|default(None) }}", {"x": ""}, ""),
    ("inlineif.string_escapes", '{{ "\\n\\n" if level == 0 else "\\n" }}|', {"level": 0}, "\n\n|"),
    ("inlineif.in_set", "{% set n = None if a == b or not g else b %}{{ n }}", {"a": 1, "b": 2, "g": True}, "2"),
    ("inlineif.chained", "{{ 'a' if x == 1 else 'b' if x == 2 else 'c' }}", {"x": 2}, "b"),
    ("inlineif.parenthesised_filtered", "{{ (a if a else 'n')|upper }}", {"a": ""}, "N"),
    # ---- tests
    ("test.none", "{{ a is none }}{{ a is not none }}{{ b is none }}", {"a": None, "b": 0}, "TrueFalseFalse"),
    ("test.not_binds_looser", "{{ not a is none }}", {"a": None}, "False"),
    ("test.with_args", "{{ 4 is divisibleby 2 }}{{ 3 is odd }}{{ 2 is eq 2 }}{{ 1 is in [1, 2] }}{{ x is sameas none }}", {"x": None}, "TrueTrueTrueTrueTrue"),
    ("test.types", "{{ 'a' is string }}{{ 1 is number }}{{ 1 is string }}{{ {} is mapping }}{{ [] is sequence }}{{ 1 is iterable }}", {}, "TrueTrueFalseTrueTrueFalse"),
    ("test.and_after_test", "{% if a is none and b %}y{% endif %}", {"a": None, "b": 1}, "y"),
    ("test.unknown", "{{ a is frobnicated }}", {}, TemplateSyntaxError),
    # ---- builtin filters
    ("filter.default", "{{ x|default(0) }}{{ y|default('d') }}{{ z|default('e', true) }}{{ w|d('f') }}", {"y": None, "z": ""}, "0Noneef"),
    ("filter.default_missing_attr", "{{ obj.nope|default('m') }}", {"obj": NS(a=1)}, "m"),
    ("filter.join", "{{ [1, 2, 3]|join(', ') }}|{{ 'abc'|join }}|{{ []|join(',') }}", {}, "1, 2, 3|abc|"),
    ("filter.join_attribute", "{{ items|join(',', attribute='name') }}", {"items": [NS(name="a"), {"name": "b"}]}, "a,b"),
    ("filter.join_newline_literal", "{{ lines | join('\\n') }}", {"lines": ["@a", "@b"]}, "@a\n@b"),
    ("filter.indent_default", "{{ 'a\\nb\\n\\nc'|indent }}", {}, "a\n    b\n\n    c"),
    ("filter.indent_first", "{{ s|indent(4, first=True) }}", {"s": "a\nb"}, "    a\n    b"),
    ("filter.indent_first_kw_only", "{{ s|indent(first=True) }}", {"s": "a"}, "    a"),
    ("filter.indent_width_kw", "{{ s|indent(width=2, first=True) }}", {"s": "a\n\nb"}, "  a\n\n  b"),
    ("filter.indent_blank", "{{ s|indent(2, blank=True) }}", {"s": "a\n\nb"}, "a\n  \n  b"),
    ("filter.indent_trailing_newline", "[{{ s|indent(2) }}]", {"s": "a\n"}, "[a\n]"),
    ("filter.indent_empty_first", "[{{ ''|indent(4, first=True) }}]", {}, "[    ]"),
    ("filter.length", "{{ items|length }}{{ 'abc'|length }}{{ items|count }}", {"items": [1, 2]}, "232"),
    ("filter.length_compare", "{% if items|length == 1 -%} one {%- else -%} many {%- endif %}", {"items": [0]}, "one"),
    ("filter.case_trim", "{{ 'aB'|upper }}{{ 'aB'|lower }}[{{ '  x '|trim }}]{{ 5|string + '1' }}", {}, "ABab[x]51"),
    ("filter.first_last_list", "{{ [1, 2, 3]|first }}{{ [1, 2, 3]|last }}{{ 'ab'|list }}[{{ []|first }}]", {}, "13['a', 'b'][]"),
    ("filter.replace_format", "{{ 'aaa'|replace('a', 'b', 2) }} {{ '%s-%s'|format(1, 'x') }} {{ '%(k)s'|format(k=2) }}", {}, "bba 1-x 2"),
    ("filter.precedence_over_concat", "{{ 'a' ~ 'b'|upper }}", {}, "aB"),
    ("filter.unknown", "{{ a|frobnicate }}", {}, TemplateSyntaxError),
    # ---- groupby (Jinja2 3.1: stable, sorted, case-insensitive unless case_sensitive=True)
    ("groupby.unpack", "{% for source, items in imports|groupby('source') %}{{ source }}:{{ items|length }}:{{ items|join(',', attribute='name') }};{% endfor %}", {"imports": [I("b", "x"), I("a", "y"), I("b", "z")]}, "a:1:y;b:2:x,z;"),
    ("groupby.namedtuple_fields", "{% for g in imports|groupby('source') %}{{ g.grouper }}{{ g.list|length }}{% endfor %}", {"imports": [I("b", "x"), I("a", "y"), I("b", "z")]}, "a1b2"),
    ("groupby.dotted_attribute", "{% for k, v in rows|groupby('o.k') %}{{ k }}{{ v|length }}{% endfor %}", {"rows": [{"o": {"k": 2}}, {"o": {"k": 1}}, {"o": {"k": 2}}]}, "1122"),
    ("groupby.case_insensitive_default", "{% for k, v in rows|groupby('s') %}{{ k }}:{{ v|length }};{% endfor %}", {"rows": [NS(s="B"), NS(s="a"), NS(s="b")]}, "a:1;B:2;"),
    ("groupby.case_sensitive", "{% for k, v in rows|groupby('s', case_sensitive=true) %}{{ k }}:{{ v|length }};{% endfor %}", {"rows": [NS(s="B"), NS(s="a"), NS(s="b")]}, "B:1;a:1;b:1;"),
    ("groupby.imports_like_single", IMPORTS_LIKE, {"imports": [I("pkg.mod", "A")]}, "from pkg.mod import A\n"),
    ("groupby.imports_like_multi", IMPORTS_LIKE, {"imports": [I("z.mod", "Z"), I("pkg.mod", "A"), I("pkg.mod", "B")]}, "from pkg.mod import (\n    A,\n    B,\n)\nfrom z.mod import Z\n"),
    ("groupby.imports_like_then_text", "{% include 'imports' %}\n__all__ = [", {"imports": [I("m", "A")]}, "from m import A\n\n__all__ = ["),
    # ---- custom filters / globals registered the way xsdata does
    ("custom.filter_noargs", "{{ obj.name|class_name }}", {"obj": NS(name="foo_bar")}, "FooBar"),
    ("custom.filter_args", "{{ attr.name | constant_name(obj.name) }} = 1", {"attr": NS(name="a"), "obj": NS(name="o")}, "O_A = 1"),
    ("custom.filter_kwargs", "{{ v | wrap(off, subsequent_indent='') | indent(width=4, first=True) }}", {"v": "x", "off": 3}, "    <3||None|x>"),
    ("custom.filter_kw_refers_to_set", "{% set member = '{}.{} = '.format(c, n) -%}\n{{ member }}{{ h | wrap(0, key=member) }}", {"c": "C", "n": "N", "h": "doc"}, "C.N = <0|  |C.N = |doc>"),
    ("custom.filter_on_object", "{{ obj | wrap(1) }}", {"obj": 7}, "<1|  |None|7>"),
    ("custom.global_value", "{{ docstring_name }}", {}, "google"),
    ("custom.global_shadowed_by_context", "{{ docstring_name }}", {"docstring_name": "rst"}, "rst"),
    ("custom.global_call", "{{ shout('ab', times=2) }}", {}, "ABAB"),
    # ---- expressions
    ("expr.arith", "{{ 1 + 2 * 3 }}{{ (1 + 2) * 3 }}{{ 7 // 2 }}{{ 7 % 3 }}{{ 2 ** 3 }}{{ -2 + 5 }}", {}, "793183"),
    ("expr.offset_like", "{% set offset = (level + 2) * 4 + 7 -%} {{ offset }}", {"level": 1}, "19"),
    ("expr.concat", "{{ 'a' ~ 1 ~ none }}{{ 'a' + 'b' }}", {}, "a1Noneab"),
    ("expr.compare_logic", "{{ 1 < 2 < 3 }}{{ 1 in [1] }}{{ 2 not in [1] }}{{ 'a' in 'abc' }}[{{ a and b }}]{{ a or 'z' }}{{ 1 != 2 }}", {"a": "", "b": 1}, "TrueTrueTrueTrue[]zTrue"),
    ("expr.and_not", "{% set g = level == 0 and not obj.local %}{{ g }}", {"level": 0, "obj": NS(local=False)}, "True"),
    ("expr.attr_item", "{{ d.key }}{{ d['key'] }}{{ o.attr }}{{ o['attr'] }}{{ items[0].name }}{{ items[-1].name }}{{ t.1 }}", {"d": {"key": 1}, "o": NS(attr=2), "items": [NS(name="f"), NS(name="l")], "t": (8, 9)}, "1122fl9"),
    ("expr.slice", "{{ 'abcdef'[1:3] }}{{ 'abcdef'[:2] }}{{ 'abcdef'[4:] }}{{ [1, 2, 3][::2] }}", {}, "bcabef[1, 3]"),
    ("expr.method_call_kwargs", "{{ '{a}-{b}'.format(a=1, b=2) }} {{ 'a,b'.split(',')|join('|') }}", {}, "1-2 a|b"),
    ("expr.format_triple_quotes", "{{ '\"\"\"{}\"\"\"'.format(obj.help | upper) }}", {"obj": NS(help="h")}, '"""H"""'),
    ("expr.literals", "{{ [1, 'a'] }}{{ (1, 2) }}{{ {'a': 1} }}{{ (1) }}{{ (1,) }}{{ 'a' 'b' }}{{ 1.5 }}", {}, "[1, 'a'](1, 2){'a': 1}1(1,)ab1.5"),
    ("expr.bool_none_literals", "{{ true }}{{ false }}{{ none }}{{ True }}{{ None }}", {}, "TrueFalseNoneTrueNone"),
    ("expr.nested_braces_in_var", "{{ {'a': {'b': 1}}['a']['b'] }}", {}, "1"),
    ("expr.multiline", "{{ [1,\n   2]|length }}{% if a\n  and b %}y{% endif %}", {"a": 1, "b": 1}, "2y"),
    ("expr.string_with_delims", "{{ '}}' }}{{ \"%}\" }}{{ '{{' }}", {}, "}}%}{{"),
    # ---- syntax / unsupported constructs must fail loudly
    ("syntax.unknown_tag", "{% macro m() %}{% endmacro %}", {}, TemplateSyntaxError),
    ("syntax.extends", "{% extends 'inc' %}", {}, TemplateSyntaxError),
    ("syntax.raw", "{% raw %}{{ x }}{% endraw %}", {}, TemplateSyntaxError),
    ("syntax.unclosed_if", "{% if a %}x", {}, TemplateSyntaxError),
    ("syntax.stray_end", "x{% endif %}", {}, TemplateSyntaxError),
    ("syntax.unclosed_var", "{{ a ", {}, TemplateSyntaxError),
    ("syntax.trailing_tokens", "{{ a b }}", {}, TemplateSyntaxError),
    ("syntax.empty_expr", "{{ }}", {}, TemplateSyntaxError),
    ("syntax.bad_char", "{{ a ? b }}", {}, TemplateSyntaxError),
    ("syntax.for_recursive", "{% for a in b recursive %}{% endfor %}", {}, TemplateSyntaxError),
    ("syntax.include_options", "{% include 'inc' ignore missing %}", {}, TemplateSyntaxError),
]


def run_case(env, name, template, context, expected):
    try:
        got = env.from_string(template).render(**context)
    except Exception as e:  # noqa: BLE001
        if isinstance(expected, type) and isinstance(e, expected):
            return None
        return f"{name}: raised {type(e).__name__}: {e}; expected {expected!r}"
    if isinstance(expected, type):
        return f"{name}: rendered {got!r}; expected {expected.__name__} to be raised"
    if got != expected:
        return f"{name}:\n    template {template!r}\n    expected {expected!r}\n    got      {got!r}"
    return None


def extra_cases():
    """Cases that need their own Environment / loader."""
    out = []

    def check(name, fn):
        try:
            msg = fn()
        except Exception as e:  # noqa: BLE001
            msg = f"raised {type(e).__name__}: {e}"
        out.append(None if not msg else f"{name}: {msg}")

    def expect_raises(exc, fn):
        try:
            fn()
        except exc:
            return None
        except Exception as e:  # noqa: BLE001
            return f"raised {type(e).__name__} instead of {exc.__name__}: {e}"
        return f"did not raise {exc.__name__}"

    def eq(got, want):
        return None if got == want else f"expected {want!r}, got {got!r}"

    check("env.keep_trailing_newline", lambda: eq(make_env(keep_trailing_newline=True).from_string("a\n").render(), "a\n"))
    check("env.keep_trailing_newline_false_explicit", lambda: eq(make_env(keep_trailing_newline=False).from_string("a\n").render(), "a"))
    check("env.trim_blocks_rejected", lambda: expect_raises(NotImplementedError, lambda: Environment(trim_blocks=True)))
    check("env.lstrip_blocks_rejected", lambda: expect_raises(NotImplementedError, lambda: Environment(lstrip_blocks=True)))
    check("env.autoescape_rejected", lambda: expect_raises(NotImplementedError, lambda: Environment(autoescape=True)))
    check("env.delimiters_rejected", lambda: expect_raises(NotImplementedError, lambda: Environment(variable_start_string="<<")))
    check("env.unknown_option_rejected", lambda: expect_raises(TypeError, lambda: Environment(no_such_option=1)))
    check("env.defaults_accepted", lambda: eq(Environment(autoescape=False, trim_blocks=False, lstrip_blocks=False, extensions=[]).from_string("{{ 1 }}").render(), "1"))

    def render_dict_positional():
        return eq(make_env().from_string("{{ a }}{{ b }}").render({"a": 1}, b=2), "12")

    check("render.dict_and_kwargs", render_dict_positional)

    def template_cache():
        env = make_env()
        return None if env.get_template("inc") is env.get_template("inc") else "get_template did not cache"

    check("loader.cache", template_cache)
    check("loader.dict_missing", lambda: expect_raises(TemplateNotFound, lambda: make_env().get_template("nope")))

    def fs_loader():
        with tempfile.TemporaryDirectory(prefix="xsdata-verif-selftest-") as tmp:
            os.mkdir(os.path.join(tmp, "sub"))
            with open(os.path.join(tmp, "main.jinja2"), "w", newline="") as f:
                f.write("{% include 'sub/part.jinja2' -%}\r\n|{{ x }}\r\n")
            with open(os.path.join(tmp, "sub", "part.jinja2"), "w") as f:
                f.write("P{{ x }}\n")
            env = Environment(loader=FileSystemLoader([tmp]), autoescape=False)
            msg = eq(env.get_template("main.jinja2").render(x=1), "P1|1")
            if msg:
                return msg
            msg = expect_raises(TemplateNotFound, lambda: env.get_template("../x"))
            if msg:
                return msg
            return expect_raises(TemplateNotFound, lambda: env.get_template("missing.jinja2"))

    check("loader.filesystem", fs_loader)

    def pass_env():
        env = make_env()

        @jinja2.pass_environment
        def envfilter(environment, value, arg):
            return f"{type(environment).__name__}:{value}:{arg}"

        env.filters["envfilter"] = envfilter
        return eq(env.from_string("{{ 1|envfilter(2) }}").render(), "Environment:1:2")

    check("filter.pass_environment", pass_env)

    def undefined_object():
        u = jinja2.Undefined(name="x")
        problems = []
        if str(u) != "" or bool(u) or len(u) != 0 or list(u) != []:
            problems.append("str/bool/len/iter")
        if not (u == jinja2.Undefined(name="y")) or u != jinja2.Undefined() or u == None:  # noqa: E711
            problems.append("eq")
        if hash(u) != hash(jinja2.Undefined()):
            problems.append("hash")
        for op in (lambda: u.foo, lambda: u[0], lambda: u(), lambda: u + 1, lambda: 1 + u, lambda: int(u), lambda: u < 1, lambda: -u):
            try:
                op()
            except UndefinedError as e:
                if "'x' is undefined" not in str(e):
                    problems.append(f"message {e}")
            else:
                problems.append("no UndefinedError")
        return ", ".join(problems) or None

    check("undefined.object_protocol", undefined_object)

    def getattr_getitem():
        env = make_env()
        o = NS(a=1)
        d = {"a": 2, "items": 3}
        problems = []
        if env.getattr(o, "a") != 1 or env.getitem(o, "a") != 1:
            problems.append("object")
        if env.getattr(d, "a") != 2 or env.getitem(d, "a") != 2:
            problems.append("dict")
        if env.getitem(d, "items") != 3 or not callable(env.getattr(d, "items")):
            problems.append("attr-vs-item precedence")
        if not isinstance(env.getattr(o, "zz"), jinja2.Undefined) or not isinstance(env.getitem(d, "zz"), jinja2.Undefined):
            problems.append("missing -> Undefined")
        return ", ".join(problems) or None

    check("env.getattr_getitem", getattr_getitem)
    return out


def main(argv):
    verbose = "-v" in argv
    env = make_env()
    env.filters["pairs"] = lambda d: list(d.items())
    TEMPLATES["imports"] = IMPORTS_LIKE
    failures = []
    total = 0
    for name, template, context, expected in CASES:
        total += 1
        msg = run_case(env, name, template, context, expected)
        if verbose:
            print(("FAIL " if msg else "ok   ") + name)
        if msg:
            failures.append(msg)
    for msg in extra_cases():
        total += 1
        if msg:
            failures.append(msg)
    names = [c[0] for c in CASES]
    dup = {n for n in names if names.count(n) > 1}
    if dup:
        failures.append(f"duplicate case names: {sorted(dup)}")
    for msg in failures:
        print("FAIL " + msg)
    print(f"jinja2 stand-in selftest: {total - len(failures)}/{total} cases passed, {len(failures)} failed ({jinja2.__name__} {getattr(jinja2, '__version__', '?')})")
    return 1 if failures else 0


if __name__ == "__main__":
    sys.exit(main(sys.argv[1:]))
