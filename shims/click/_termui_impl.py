"""
This module contains implementations for the termui module. To keep the
import time of Click down, some infrequently used functionality is
placed in this module and only imported as needed.
"""

from __future__ import annotations

import collections.abc as cabc
import contextlib
import math
import os
import shlex
import sys
import time
import typing as t
from gettext import gettext as _
from io import StringIO
from pathlib import Path
from shutil import which
from types import TracebackType

from ._compat import _default_text_stdout
from ._compat import CYGWIN
from ._compat import get_best_encoding
from ._compat import isatty
from ._compat import open_stream
from ._compat import strip_ansi
from ._compat import term_len
from ._compat import WIN
from .exceptions import ClickException
from .utils import echo

V = t.TypeVar("V")

if os.name == "nt":
    BEFORE_BAR = "\r"
    AFTER_BAR = "\n"
else:
    BEFORE_BAR = "\r\033[?25l"
    AFTER_BAR = "\033[?25h\n"


class ProgressBar(t.Generic[V]):
    def __init__(
        self,
        iterable: cabc.Iterable[V] | None,
        length: int | None = None,
        fill_char: str = "#",
        empty_char: str = " ",
        bar_template: str = "%(bar)s",
        info_sep: str = "  ",
        hidden: bool = False,
        show_eta: bool = True,
        show_percent: bool | None = None,
        show_pos: bool = False,
        item_show_func: t.Callable[[V | None], str | None] | None = None,
        label: str | None = None,
        file: t.TextIO | None = None,
        color: bool | None = None,
        update_min_steps: int = 1,
        width: int = 30,
    ) -> None:
        self.fill_char = fill_char
        self.empty_char = empty_char
        self.bar_template = bar_template
        self.info_sep = info_sep
        self.hidden = hidden
        self.show_eta = show_eta
        self.show_percent = show_percent
        self.show_pos = show_pos
        self.item_show_func = item_show_func
        self.label: str = label or ""

        if file is None:
            file = _default_text_stdout()

            # There are no standard streams attached to write to. For example,
            # pythonw on Windows.
            if file is None:
                file = StringIO()

        self.file = file
        self.color = color
        self.update_min_steps = update_min_steps
        self._completed_intervals = 0
        self.width: int = width
        self.autowidth: bool = width == 0

        if length is None:
            from operator import length_hint

            length = length_hint(iterable, -1)

            if length == -1:
                length = None
        if iterable is None:
            if length is None:
                raise TypeError("iterable or length is required")
            iterable = t.cast("cabc.Iterable[V]", range(length))
        self.iter: cabc.Iterable[V] = iter(iterable)
        self.length = length
        self.pos: int = 0
        self.avg: list[float] = []
        self.last_eta: float
        self.start: float
        self.start = self.last_eta = time.time()
        self.eta_known: bool = False
        self.finished: bool = False
        self.max_width: int | None = None
        self.entered: bool = False
        self.current_item: V | None = None
        self._is_atty = isatty(self.file)
        self._last_line: str | None = None

    def __enter__(self) -> ProgressBar[V]:
        self.entered = True
        self.render_progress()
        return self

    def __exit__(
        self,
        exc_type: type[BaseException] | None,
        exc_value: BaseException | None,
        tb: TracebackType | None,
    ) -> None:
        self.render_finish()

    def __iter__(self) -> cabc.Iterator[V]:
        if not self.entered:
            raise RuntimeError("You need to use progress bars in a with block.")
        self.render_progress()
        return self.generator()

    def __next__(self) -> V:
        # Iteration is defined in terms of a generator function,
        # returned by iter(self); use that to define next(). This works
        # because `self.iter` is an iterable consumed by that generator,
        # so it is re-entry safe. Calling `next(self.generator())`
        # twice works and does "what you want".
        return next(iter(self))

    def render_finish(self) -> None:
        if self.hidden or not self._is_atty:
            return
        self.file.write(AFTER_BAR)
        self.file.flush()

    @property
    def pct(self) -> float:
        if self.finished:
            return 1.0
        return min(self.pos / (float(self.length or 1) or 1), 1.0)

    @property
    def time_per_iteration(self) -> float:
        if not self.avg:
            return 0.0
        return sum(self.avg) / float(len(self.avg))

    @property
    def eta(self) -> float:
        if self.length is not None and not self.finished:
            return self.time_per_iteration * (self.length - self.pos)
        return 0.0

    def format_eta(self) -> str:
        if self.eta_known:
            t = int(self.eta)
            seconds = t % 60
            t //= 60
            minutes = t % 60
            t //= 60
            hours = t % 24
            t //= 24
            if t > 0:
                return f"{t}d {hours:02}:{minutes:02}:{seconds:02}"
            else:
                return f"{hours:02}:{minutes:02}:{seconds:02}"
        return ""

    def format_pos(self) -> str:
        pos = str(self.pos)
        if self.length is not None:
            pos += f"/{self.length}"
        return pos

    def format_pct(self) -> str:
        return f"{int(self.pct * 100): 4}%"[1:]

    def format_bar(self) -> str:
        if self.length is not None:
            bar_length = int(self.pct * self.width)
            bar = self.fill_char * bar_length
            bar += self.empty_char * (self.width - bar_length)
        elif self.finished:
            bar = self.fill_char * self.width
        else:
            chars = list(self.empty_char * (self.width or 1))
            if self.time_per_iteration != 0:
                chars[
                    int(
                        (math.cos(self.pos * self.time_per_iteration) / 2.0 + 0.5)
                        * self.width
                    )
                ] = self.fill_char
            bar = "".join(chars)
        return bar

    def format_progress_line(self) -> str:
        show_percent = self.show_percent

        info_bits = []
        if self.length is not None and show_percent is None:
            show_percent = not self.show_pos

        if self.show_pos:
            info_bits.append(self.format_pos())
        if show_percent:
            info_bits.append(self.format_pct())
        if self.show_eta and self.eta_known and not self.finished:
            info_bits.append(self.format_eta())
        if self.item_show_func is not None:
            item_info = self.item_show_func(self.current_item)
            if item_info is not None:
                info_bits.append(item_info)

        return (
            self.bar_template
            % {
                "label": self.label,
                "bar": self.format_bar(),
                "info": self.info_sep.join(info_bits),
            }
        ).rstrip()

    def render_progress(self) -> None:
        import shutil

        if self.hidden:
            return

        if not self._is_atty:
            # Only output the label once if the output is not a TTY.
            if self._last_line != self.label:
                self._last_line = self.label
                echo(self.label, file=self.file, color=self.color)
            return

        buf = []
        # Update width in case the terminal has been resized
        if self.autowidth:
            old_width = self.width
            self.width = 0
            clutter_length = term_len(self.format_progress_line())
            new_width = max(0, shutil.get_terminal_size().columns - clutter_length)
            if new_width < old_width and self.max_width is not None:
                buf.append(BEFORE_BAR)
                buf.append(" " * self.max_width)
                self.max_width = new_width
            self.width = new_width

        clear_width = self.width
        if self.max_width is not None:
            clear_width = self.max_width

        buf.append(BEFORE_BAR)
        line = self.format_progress_line()
        line_len = term_len(line)
        if self.max_width is None or self.max_width < line_len:
            self.max_width = line_len

        buf.append(line)
        buf.append(" " * (clear_width - line_len))
        line = "".join(buf)
        # Render the line only if it changed.

        if line != self._last_line:
            self._last_line = line
            echo(line, file=self.file, color=self.color, nl=False)
            self.file.flush()

    def make_step(self, n_steps: int) -> None:
        self.pos += n_steps
        if self.length is not None and self.pos >= self.length:
            self.finished = True

        if (time.time() - self.last_eta) < 1.0:
            return

        self.last_eta = time.time()

        # self.avg is a rolling list of length <= 7 of steps where steps are
        # defined as time elapsed divided by the total progress through
        # self.length.
        if self.pos:
            step = (time.time() - self.start) / self.pos
        else:
            step = time.time() - self.start

        self.avg = self.avg[-6:] + [step]

        self.eta_known = self.length is not None

    def update(self, n_steps: int, current_item: V | None = None) -> None:
        """Update the progress bar by advancing a specified number of
        steps, and optionally set the ``current_item`` for this new
        position.

        :param n_steps: Number of steps to advance.
        :param current_item: Optional item to set as ``current_item``
            for the updated position.

        .. versionchanged:: 8.0
            Added the ``current_item`` optional parameter.

        .. versionchanged:: 8.0
            Only render when the number of steps meets the
            ``update_min_steps`` threshold.
        """
        if current_item is not None:
            self.current_item = current_item

        self._completed_intervals += n_steps

        if self._completed_intervals >= self.update_min_steps:
            self.make_step(self._completed_intervals)
            self.render_progress()
            self._completed_intervals = 0

    def finish(self) -> None:
        self.eta_known = False
        self.current_item = None
        self.finished = True

    def generator(self) -> cabc.Iterator[V]:
        """Return a generator which yields the items added to the bar
        during construction, and updates the progress bar *after* the
        yielded block returns.
        """
        # WARNING: the iterator interface for `ProgressBar` relies on
        # this and only works because this is a simple generator which
        # doesn't create or manage additional state. If this function
        # changes, the impact should be evaluated both against
        # `iter(bar)` and `next(bar)`. `next()` in particular may call
        # `self.generator()` repeatedly, and this must remain safe in
        # order for that interface to work.
        if not self.entered:
            raise RuntimeError("You need to use progress bars in a with block.")

        if not self._is_atty:
            yield from self.iter
        else:
            for rv in self.iter:
                self.current_item = rv

                # This allows show_item_func to be updated before the
                # item is processed. Only trigger at the beginning of
                # the update interval.
                if self._completed_intervals == 0:
                    self.render_progress()

                yield rv
                self.update(1)

            self.finish()
            self.render_progress()


def pager(generator: cabc.Iterable[str], color: bool | None = None) -> None:
    """Decide what method to use for paging through text."""
    stdout = _default_text_stdout()

    # There are no standard streams attached to write to. For example,
    # pythonw on Windows.
    if stdout is None:
        stdout = StringIO()

    if not isatty(sys.stdin) or not isatty(stdout):
        return _nullpager(stdout, generator, color)

    # Split and normalize the pager command into parts.
    pager_cmd_parts = shlex.split(os.environ.get("PAGER", ""), posix=False)
    if pager_cmd_parts:
        if WIN:
            if _tempfilepager(generator, pager_cmd_parts, color):
                return
        elif _pipepager(generator, pager_cmd_parts, color):
            return

    if os.environ.get("TERM") in ("dumb", "emacs"):
        return _nullpager(stdout, generator, color)
    if (WIN or sys.platform.startswith("os2")) and _tempfilepager(
        generator, ["more"], color
    ):
        return
    if _pipepager(generator, ["less"], color):
        return

    import tempfile

    fd, filename = tempfile.mkstemp()
    os.close(fd)
    try:
        if _pipepager(generator, ["more"], color):
            return
        return _nullpager(stdout, generator, color)
    finally:
        os.unlink(filename)


def _pipepager(
    generator: cabc.Iterable[str], cmd_parts: list[str], color: bool | None
) -> bool:
    """Page through text by feeding it to another program. Invoking a
    pager through this might support colors.

    Returns `True` if the command was found, `False` otherwise and thus another
    pager should be attempted.
    """
    # Split the command into the invoked CLI and its parameters.
    if not cmd_parts:
        return False
    cmd = cmd_parts[0]
    cmd_params = cmd_parts[1:]

    cmd_filepath = which(cmd)
    if not cmd_filepath:
        return False
    # Resolves symlinks and produces a normalized absolute path string.
    cmd_path = Path(cmd_filepath).resolve()
    cmd_name = cmd_path.name

    import subprocess

    # Make a local copy of the environment to not affect the global one.
    env = dict(os.environ)

    # If we're piping to less and the user hasn't decided on colors, we enable
    # them by default we find the -R flag in the command line arguments.
    if color is None and cmd_name == "less":
        less_flags = f"{os.environ.get('LESS', '')}{' '.join(cmd_params)}"
        if not less_flags:
            env["LESS"] = "-R"
            color = True
        elif "r" in less_flags or "R" in less_flags:
            color = True

    c = subprocess.Popen(
        [str(cmd_path)] + cmd_params,
        shell=True,
        stdin=subprocess.PIPE,
        env=env,
        errors="replace",
        text=True,
    )
    assert c.stdin is not None
    try:
        for text in generator:
            if not color:
                text = strip_ansi(text)

            c.stdin.write(text)
    except BrokenPipeError:
        # In case the pager exited unexpectedly, ignore the broken pipe error.
        pass
    except Exception as e:
        # In case there is an exception we want to close the pager immediately
        # and let the caller handle it.
        # Otherwise the pager will keep running, and the user may not notice
        # the error message, or worse yet it may leave the terminal in a broken state.
        c.terminate()
        raise e
    finally:
        # We must close stdin and wait for the pager to exit before we continue
        try:
            c.stdin.close()
        # Close implies flush, so it might throw a BrokenPipeError if the pager
        # process exited already.
        except BrokenPipeError:
            pass

        # Less doesn't respect ^C, but catches it for its own UI purposes (aborting
        # search or other commands inside less).
        #
        # That means when the user hits ^C, the parent process (click) terminates,
        # but less is still alive, paging the output and messing up the terminal.
        #
        # If the user wants to make the pager exit on ^C, they should set
        # `LESS='-K'`. It's not our decision to make.
        while True:
            try:
                c.wait()
            except KeyboardInterrupt:
                pass
            else:
                break

    return True


def _tempfilepager(
    generator: cabc.Iterable[str], cmd_parts: list[str], color: bool | None
) -> bool:
    """Page through text by invoking a program on a temporary file.

    Returns `True` if the command was found, `False` otherwise and thus another
    pager should be attempted.
    """
    # Split the command into the invoked CLI and its parameters.
    if not cmd_parts:
        return False
    cmd = cmd_parts[0]

    cmd_filepath = which(cmd)
    if not cmd_filepath:
        return False
    # Resolves symlinks and produces a normalized absolute path string.
    cmd_path = Path(cmd_filepath).resolve()

    import subprocess
    import tempfile

    fd, filename = tempfile.mkstemp()
    # TODO: This never terminates if the passed generator never terminates.
    text = "".join(generator)
    if not color:
        text = strip_ansi(text)
    encoding = get_best_encoding(sys.stdout)
    with open_stream(filename, "wb")[0] as f:
        f.write(text.encode(encoding))
    try:
        subprocess.call([str(cmd_path), filename])
    except OSError:
        # Command not found
        pass
    finally:
        os.close(fd)
        os.unlink(filename)

    return True


def _nullpager(
    stream: t.TextIO, generator: cabc.Iterable[str], color: bool | None
) -> None:
    """Simply print unformatted text.  This is the ultimate fallback."""
    for text in generator:
        if not color:
            text = strip_ansi(text)
        stream.write(text)


class Editor:
    def __init__(
        self,
        editor: str | None = None,
        env: cabc.Mapping[str, str] | None = None,
        require_save: bool = True,
        extension: str = ".txt",
    ) -> None:
        self.editor = editor
        self.env = env
        self.require_save = require_save
        self.extension = extension

    def get_editor(self) -> str:
        if self.editor is not None:
            return self.editor
        for key in "VISUAL", "EDITOR":
            rv = os.environ.get(key)
            if rv:
                return rv
        if WIN:
            return "notepad"
        for editor in "sensible-editor", "vim", "nano":
            if which(editor) is not None:
                return editor
        return "vi"

    def edit_files(self, filenames: cabc.Iterable[str]) -> None:
        import subprocess

        editor = self.get_editor()
        environ: dict[str, str] | None = None

        if self.env:
            environ = os.environ.copy()
            environ.update(self.env)

        exc_filename = " ".join(f'"{filename}"' for filename in filenames)

        try:
            c = subprocess.Popen(
                args=f"{editor} {exc_filename}", env=environ, shell=True
            )
            exit_code = c.wait()
            if exit_code != 0:
                raise ClickException(
                    _("{editor}: Editing failed").format(editor=editor)
                )
        except OSError as e:
            raise ClickException(
                _("{editor}: Editing failed: {e}").format(editor=editor, e=e)
            ) from e

    @t.overload
    def edit(self, text: bytes | bytearray) -> bytes | None: ...

    # We cannot know whether or not the type expected is str or bytes when None
    # is passed, so str is returned as that was what was done before.
    @t.overload
    def edit(self, text: str | None) -> str | None: ...

    def edit(self, text: str | bytes | bytearray | None) -> str | bytes | None:
        import tempfile

        if text is None:
            data = b""
        elif isinstance(text, (bytes, bytearray)):
            data = text
        else:
            if text and not text.endswith("\n"):
                text += "\n"

            if WIN:
                data = text.replace("\n", "\r\n").encode("utf-8-sig")
            else:
                data = text.encode("utf-8")

        fd, name = tempfile.mkstemp(prefix="editor-", suffix=self.extension)
        f: t.BinaryIO

        try:
            with os.fdopen(fd, "wb") as f:
                f.write(data)

            # If the filesystem resolution is 1 second, like Mac OS
            # 10.12 Extended, or 2 seconds, like FAT32, and the editor
            # closes very fast, require_save can fail. Set the modified
            # time to be 2 seconds in the past to work around this.
            os.utime(name, (os.path.getatime(name), os.path.getmtime(name) - 2))
            # Depending on the resolution, the exact value might not be
            # recorded, so get the new recorded value.
            timestamp = os.path.getmtime(name)

            self.edit_files((name,))

            if self.require_save and os.path.getmtime(name) == timestamp:
                return None

            with open(name, "rb") as f:
                rv = f.read()

            if isinstance(text, (bytes, bytearray)):
                return rv

            return rv.decode("utf-8-sig").replace("\r\n", "\n")
        finally:
            os.unlink(name)


def open_url(url: str, wait: bool = False, locate: bool = False) -> int:
    import subprocess

    def _unquote_file(url: str) -> str:
        from urllib.parse import unquote

        if url.startswith("file://"):
            url = unquote(url[7:])

        return url

    if sys.platform == "darwin":
        args = ["open"]
        if wait:
            args.append("-W")
        if locate:
            args.append("-R")
        args.append(_unquote_file(url))
        null = open("/dev/null", "w")
        try:
            return subprocess.Popen(args, stderr=null).wait()
        finally:
            null.close()
    elif WIN:
        if locate:
            url = _unquote_file(url)
            args = ["explorer", f"/select,{url}"]
        else:
            args = ["start"]
            if wait:
                args.append("/WAIT")
            args.append("")
            args.append(url)
        try:
            return subprocess.call(args)
        except OSError:
            # Command not found
            return 127
    elif CYGWIN:
        if locate:
            url = _unquote_file(url)
            args = ["cygstart", os.path.dirname(url)]
        else:
            args = ["cygstart"]
            if wait:
                args.append("-w")
            args.append(url)
        try:
            return subprocess.call(args)
        except OSError:
            # Command not found
            return 127

    try:
        if locate:
            url = os.path.dirname(_unquote_file(url)) or "."
        else:
            url = _unquote_file(url)
        c = subprocess.Popen(["xdg-open", url])
        if wait:
            return c.wait()
        return 0
    except OSError:
        if url.startswith(("http://", "https://")) and not locate and not wait:
            import webbrowser

            webbrowser.open(url)
            return 0
        return 1


def _translate_ch_to_exc(ch: str) -> None:
    if ch == "\x03":
        raise KeyboardInterrupt()

    if ch == "\x04" and not WIN:  # Unix-like, Ctrl+D
        raise EOFError()

    if ch == "\x1a" and WIN:  # Windows, Ctrl+Z
        raise EOFError()

    return None


if sys.platform == "win32":
    import msvcrt

    @contextlib.contextmanager
    def raw_terminal() -> cabc.Iterator[int]:
        yield -1

    def getchar(echo: bool) -> str:
        # The function `getch` will return a bytes object corresponding to
        # the pressed character. Since Windows 10 build 1803, it will also
        # return \x00 when called a second time after pressing a regular key.
        #
        # `getwch` does not share this probably-bugged behavior. Moreover, it
        # returns a Unicode object by default, which is what we want.
        #
        # Either of these functions will return \x00 or \xe0 to indicate
        # a special key, and you need to call the same function again to get
        # the "rest" of the code. The fun part is that \u00e0 is
        # "latin small letter a with grave", so if you type that on a French
        # keyboard, you _also_ get a \xe0.
        # E.g., consider the Up arrow. This returns \xe0 and then \x48. The
        # resulting Unicode string reads as "a with grave" + "capital H".
        # This is indistinguishable from when the user actually types
        # "a with grave" and then "capital H".
        #
        # When \xe0 is returned, we assume it's part of a special-key sequence
        # and call `getwch` again, but that means that when the user types
        # the \u00e0 character, `getchar` doesn't return until a second
        # character is typed.
        # The alternative is returning immediately, but that would mess up
        # cross-platform handling of arrow keys and others that start with
        # \xe0. Another option is using `getch`, but then we can't reliably
        # read non-ASCII characters, because return values of `getch` are
        # limited to the current 8-bit codepage.
        #
        # Anyway, Click doesn't claim to do this Right(tm), and using `getwch`
        # is doing the right thing in more situations than with `getch`.

        if echo:
            func = t.cast(t.Callable[[], str], msvcrt.getwche)
        else:
            func = t.cast(t.Callable[[], str], msvcrt.getwch)

        rv = func()

        if rv in ("\x00", "\xe0"):
            # \x00 and \xe0 are control characters that indicate special key,
            # see above.
            rv += func()

        _translate_ch_to_exc(rv)
        return rv

else:
    import termios
    import tty

    @contextlib.contextmanager
    def raw_terminal() -> cabc.Iterator[int]:
        f: t.TextIO | None
        fd: int

        if not isatty(sys.stdin):
            f = open("/dev/tty")
            fd = f.fileno()
        else:
            fd = sys.stdin.fileno()
            f = None

        try:
            old_settings = termios.tcgetattr(fd)

            try:
                tty.setraw(fd)
                yield fd
            finally:
                termios.tcsetattr(fd, termios.TCSADRAIN, old_settings)
                sys.stdout.flush()

                if f is not None:
                    f.close()
        except termios.error:
            pass

    def getchar(echo: bool) -> str:
        with raw_terminal() as fd:
            ch = os.read(fd, 32).decode(get_best_encoding(sys.stdin), "replace")

            if echo and isatty(sys.stdout):
                sys.stdout.write(ch)

            _translate_ch_to_exc(ch)
            return ch
