from __future__ import annotations

import collections.abc as cabc
import enum
import os
import stat
import sys
import typing as t
from datetime import datetime
from gettext import gettext as _
from gettext import ngettext

from ._compat import _get_argv_encoding
from ._compat import open_stream
from .exceptions import BadParameter
from .utils import format_filename
from .utils import LazyFile
from .utils import safecall

if t.TYPE_CHECKING:
    import typing_extensions as te

    from .core import Context
    from .core import Parameter
    from .shell_completion import CompletionItem

ParamTypeValue = t.TypeVar("ParamTypeValue")


class ParamType:
    """Represents the type of a parameter. Validates and converts values
    from the command line or Python into the correct type.

    To implement a custom type, subclass and implement at least the
    following:

    -   The :attr:`name` class attribute must be set.
    -   Calling an instance of the type with ``None`` must return
        ``None``. This is already implemented by default.
    -   :meth:`convert` must convert string values to the correct type.
    -   :meth:`convert` must accept values that are already the correct
        type.
    -   It must be able to convert a value if the ``ctx`` and ``param``
        arguments are ``None``. This can occur when converting prompt
        input.
    """

    is_composite: t.ClassVar[bool] = False
    arity: t.ClassVar[int] = 1

    #: the descriptive name of this type
    name: str

    #: if a list of this type is expected and the value is pulled from a
    #: string environment variable, this is what splits it up.  `None`
    #: means any whitespace.  For all parameters the general rule is that
    #: whitespace splits them up.  The exception are paths and files which
    #: are split by ``os.path.pathsep`` by default (":" on Unix and ";" on
    #: Windows).
    envvar_list_splitter: t.ClassVar[str | None] = None

    def to_info_dict(self) -> dict[str, t.Any]:
        """Gather information that could be useful for a tool generating
        user-facing documentation.

        Use :meth:`click.Context.to_info_dict` to traverse the entire
        CLI structure.

        .. versionadded:: 8.0
        """
        # The class name without the "ParamType" suffix.
        param_type = type(self).__name__.partition("ParamType")[0]
        param_type = param_type.partition("ParameterType")[0]

        # Custom subclasses might not remember to set a name.
        if hasattr(self, "name"):
            name = self.name
        else:
            name = param_type

        return {"param_type": param_type, "name": name}

    def __call__(
        self,
        value: t.Any,
        param: Parameter | None = None,
        ctx: Context | None = None,
    ) -> t.Any:
        if value is not None:
            return self.convert(value, param, ctx)

    def get_metavar(self, param: Parameter, ctx: Context) -> str | None:
        """Returns the metavar default for this param if it provides one."""

    def get_missing_message(self, param: Parameter, ctx: Context | None) -> str | None:
        """Optionally might return extra information about a missing
        parameter.

        .. versionadded:: 2.0
        """

    def convert(
        self, value: t.Any, param: Parameter | None, ctx: Context | None
    ) -> t.Any:
        """Convert the value to the correct type. This is not called if
        the value is ``None`` (the missing value).

        This must accept string values from the command line, as well as
        values that are already the correct type. It may also convert
        other compatible types.

        The ``param`` and ``ctx`` arguments may be ``None`` in certain
        situations, such as when converting prompt input.

        If the value cannot be converted, call :meth:`fail` with a
        descriptive message.

        :param value: The value to convert.
        :param param: The parameter that is using this type to convert
            its value. May be ``None``.
        :param ctx: The current context that arrived at this value. May
            be ``None``.
        """
        return value

    def split_envvar_value(self, rv: str) -> cabc.Sequence[str]:
        """Given a value from an environment variable this splits it up
        into small chunks depending on the defined envvar list splitter.

        If the splitter is set to `None`, which means that whitespace splits,
        then leading and trailing whitespace is ignored.  Otherwise, leading
        and trailing splitters usually lead to empty items being included.
        """
        return (rv or "").split(self.envvar_list_splitter)

    def fail(
        self,
        message: str,
        param: Parameter | None = None,
        ctx: Context | None = None,
    ) -> t.NoReturn:
        """Helper method to fail with an invalid value message."""
        raise BadParameter(message, ctx=ctx, param=param)

    def shell_complete(
        self, ctx: Context, param: Parameter, incomplete: str
    ) -> list[CompletionItem]:
        """Return a list of
        :class:`~click.shell_completion.CompletionItem` objects for the
        incomplete value. Most types do not provide completions, but
        some do, and this allows custom types to provide custom
        completions as well.

        :param ctx: Invocation context for this command.
        :param param: The parameter that is requesting completion.
        :param incomplete: Value being completed. May be empty.

        .. versionadded:: 8.0
        """
        return []


class CompositeParamType(ParamType):
    is_composite = True

    @property
    def arity(self) -> int:  # type: ignore
        raise NotImplementedError()


class FuncParamType(ParamType):
    def __init__(self, func: t.Callable[[t.Any], t.Any]) -> None:
        self.name: str = func.__name__
        self.func = func

    def to_info_dict(self) -> dict[str, t.Any]:
        info_dict = super().to_info_dict()
        info_dict["func"] = self.func
        return info_dict

    def convert(
        self, value: t.Any, param: Parameter | None, ctx: Context | None
    ) -> t.Any:
        try:
            return self.func(value)
        except ValueError:
            try:
                value = str(value)
            except UnicodeError:
                value = value.decode("utf-8", "replace")

            self.fail(value, param, ctx)


class UnprocessedParamType(ParamType):
    name = "text"

    def convert(
        self, value: t.Any, param: Parameter | None, ctx: Context | None
    ) -> t.Any:
        return value

    def __repr__(self) -> str:
        return "UNPROCESSED"


class StringParamType(ParamType):
    name = "text"

    def convert(
        self, value: t.Any, param: Parameter | None, ctx: Context | None
    ) -> t.Any:
        if isinstance(value, bytes):
            enc = _get_argv_encoding()
            try:
                value = value.decode(enc)
            except UnicodeError:
                fs_enc = sys.getfilesystemencoding()
                if fs_enc != enc:
                    try:
                        value = value.decode(fs_enc)
                    except UnicodeError:
                        value = value.decode("utf-8", "replace")
                else:
                    value = value.decode("utf-8", "replace")
            return value
        return str(value)

    def __repr__(self) -> str:
        return "STRING"


class Choice(ParamType, t.Generic[ParamTypeValue]):
    """The choice type allows a value to be checked against a fixed set
    of supported values.

    You may pass any iterable value which will be converted to a tuple
    and thus will only be iterated once.

    The resulting value will always be one of the originally passed choices.
    See :meth:`normalize_choice` for more info on the mapping of strings
    to choices. See :ref:`choice-opts` for an example.

    :param case_sensitive: Set to false to make choices case
        insensitive. Defaults to true.

    .. versionchanged:: 8.2.0
        Non-``str`` ``choices`` are now supported. It can additionally be any
        iterable. Before you were not recommended to pass anything but a list or
        tuple.

    .. versionadded:: 8.2.0
        Choice normalization can be overridden via :meth:`normalize_choice`.
    """

    name = "choice"

    def __init__(
        self, choices: cabc.Iterable[ParamTypeValue], case_sensitive: bool = True
    ) -> None:
        self.choices: cabc.Sequence[ParamTypeValue] = tuple(choices)
        self.case_sensitive = case_sensitive

    def to_info_dict(self) -> dict[str, t.Any]:
        info_dict = super().to_info_dict()
        info_dict["choices"] = self.choices
        info_dict["case_sensitive"] = self.case_sensitive
        return info_dict

    def _normalized_mapping(
        self, ctx: Context | None = None
    ) -> cabc.Mapping[ParamTypeValue, str]:
        """
        Returns mapping where keys are the original choices and the values are
        the normalized values that are accepted via the command line.

        This is a simple wrapper around :meth:`normalize_choice`, use that
        instead which is supported.
        """
        return {
            choice: self.normalize_choice(
                choice=choice,
                ctx=ctx,
            )
            for choice in self.choices
        }

    def normalize_choice(self, choice: ParamTypeValue, ctx: Context | None) -> str:
        """
        Normalize a choice value, used to map a passed string to a choice.
        Each choice must have a unique normalized value.

        By default uses :meth:`Context.token_normalize_func` and if not case
        sensitive, convert it to a casefolded value.

        .. versionadded:: 8.2.0
        """
        normed_value = choice.name if isinstance(choice, enum.Enum) else str(choice)

        if ctx is not None and ctx.token_normalize_func is not None:
            normed_value = ctx.token_normalize_func(normed_value)

        if not self.case_sensitive:
            normed_value = normed_value.casefold()

        return normed_value

    def get_metavar(self, param: Parameter, ctx: Context) -> str | None:
        if param.param_type_name == "option" and not param.show_choices:  # type: ignore
            choice_metavars = [
                convert_type(type(choice)).name.upper() for choice in self.choices
            ]
            choices_str = "|".join([*dict.fromkeys(choice_metavars)])
        else:
            choices_str = "|".join(
                [str(i) for i in self._normalized_mapping(ctx=ctx).values()]
            )

        # Use curly braces to indicate a required argument.
        if param.required and param.param_type_name == "argument":
            return f"{{{choices_str}}}"

        # Use square braces to indicate an option or optional argument.
        return f"[{choices_str}]"

    def get_missing_message(self, param: Parameter, ctx: Context | None) -> str:
        """
        Message shown when no choice is passed.

        .. versionchanged:: 8.2.0 Added ``ctx`` argument.
        """
        return _("Choose from:\n\t{choices}").format(
            choices=",\n\t".join(self._normalized_mapping(ctx=ctx).values())
        )

    def convert(
        self, value: t.Any, param: Parameter | None, ctx: Context | None
    ) -> ParamTypeValue:
        """
        For a given value from the parser, normalize it and find its
        matching normalized value in the list of choices. Then return the
        matched "original" choice.
        """
        normed_value = self.normalize_choice(choice=value, ctx=ctx)
        normalized_mapping = self._normalized_mapping(ctx=ctx)

        try:
            return next(
                original
                for original, normalized in normalized_mapping.items()
                if normalized == normed_value
            )
        except StopIteration:
            self.fail(
                self.get_invalid_choice_message(value=value, ctx=ctx),
                param=param,
                ctx=ctx,
            )

    def get_invalid_choice_message(self, value: t.Any, ctx: Context | None) -> str:
        """Get the error message when the given choice is invalid.

        :param value: The invalid value.

        .. versionadded:: 8.2
        """
        choices_str = ", ".join(map(repr, self._normalized_mapping(ctx=ctx).values()))
        return ngettext(
            "{value!r} is not {choice}.",
            "{value!r} is not one of {choices}.",
            len(self.choices),
        ).format(value=value, choice=choices_str, choices=choices_str)

    def __repr__(self) -> str:
        return f"Choice({list(self.choices)})"

    def shell_complete(
        self, ctx: Context, param: Parameter, incomplete: str
    ) -> list[CompletionItem]:
        """Complete choices that start with the incomplete value.

        :param ctx: Invocation context for this command.
        :param param: The parameter that is requesting completion.
        :param incomplete: Value being completed. May be empty.

        .. versionadded:: 8.0
        """
        from click.shell_completion import CompletionItem

        str_choices = map(str, self.choices)

        if self.case_sensitive:
            matched = (c for c in str_choices if c.startswith(incomplete))
        else:
            incomplete = incomplete.lower()
            matched = (c for c in str_choices if c.lower().startswith(incomplete))

        return [CompletionItem(c) for c in matched]


class DateTime(ParamType):
    """The DateTime type converts date strings into `datetime` objects.

    The format strings which are checked are configurable, but default to some
    common (non-timezone aware) ISO 8601 formats.

    When specifying *DateTime* formats, you should only pass a list or a tuple.
    Other iterables, like generators, may lead to surprising results.

    The format strings are processed using ``datetime.strptime``, and this
    consequently defines the format strings which are allowed.

    Parsing is tried using each format, in order, and the first format which
    parses successfully is used.

    :param formats: A list or tuple of date format strings, in the order in
                    which they should be tried. Defaults to
                    ``'%Y-%m-%d'``, ``'%Y-%m-%dT%H:%M:%S'``,
                    ``'%Y-%m-%d %H:%M:%S'``.
    """

    name = "datetime"

    def __init__(self, formats: cabc.Sequence[str] | None = None):
        self.formats: cabc.Sequence[str] = formats or [
            "%Y-%m-%d",
            "%Y-%m-%dT%H:%M:%S",
            "%Y-%m-%d %H:%M:%S",
        ]

    def to_info_dict(self) -> dict[str, t.Any]:
        info_dict = super().to_info_dict()
        info_dict["formats"] = self.formats
        return info_dict

    def get_metavar(self, param: Parameter, ctx: Context) -> str | None:
        return f"[{'|'.join(self.formats)}]"

    def _try_to_convert_date(self, value: t.Any, format: str) -> datetime | None:
        try:
            return datetime.strptime(value, format)
        except ValueError:
            return None

    def convert(
        self, value: t.Any, param: Parameter | None, ctx: Context | None
    ) -> t.Any:
        if isinstance(value, datetime):
            return value

        for format in self.formats:
            converted = self._try_to_convert_date(value, format)

            if converted is not None:
                return converted

        formats_str = ", ".join(map(repr, self.formats))
        self.fail(
            ngettext(
                "{value!r} does not match the format {format}.",
                "{value!r} does not match the formats {formats}.",
                len(self.formats),
            ).format(value=value, format=formats_str, formats=formats_str),
            param,
            ctx,
        )

    def __repr__(self) -> str:
        return "DateTime"


class _NumberParamTypeBase(ParamType):
    _number_class: t.ClassVar[type[t.Any]]

    def convert(
        self, value: t.Any, param: Parameter | None, ctx: Context | None
    ) -> t.Any:
        try:
            return self._number_class(value)
        except ValueError:
            self.fail(
                _("{value!r} is not a valid {number_type}.").format(
                    value=value, number_type=self.name
                ),
                param,
                ctx,
            )


class _NumberRangeBase(_NumberParamTypeBase):
    def __init__(
        self,
        min: float | None = None,
        max: float | None = None,
        min_open: bool = False,
        max_open: bool = False,
        clamp: bool = False,
    ) -> None:
        self.min = min
        self.max = max
        self.min_open = min_open
        self.max_open = max_open
        self.clamp = clamp

    def to_info_dict(self) -> dict[str, t.Any]:
        info_dict = super().to_info_dict()
        info_dict.update(
            min=self.min,
            max=self.max,
            min_open=self.min_open,
            max_open=self.max_open,
            clamp=self.clamp,
        )
        return info_dict

    def convert(
        self, value: t.Any, param: Parameter | None, ctx: Context | None
    ) -> t.Any:
        import operator

        rv = super().convert(value, param, ctx)
        lt_min: bool = self.min is not None and (
            operator.le if self.min_open else operator.lt
        )(rv, self.min)
        gt_max: bool = self.max is not None and (
            operator.ge if self.max_open else operator.gt
        )(rv, self.max)

        if self.clamp:
            if lt_min:
                return self._clamp(self.min, 1, self.min_open)  # type: ignore

            if gt_max:
                return self._clamp(self.max, -1, self.max_open)  # type: ignore

        if lt_min or gt_max:
            self.fail(
                _("{value} is not in the range {range}.").format(
                    value=rv, range=self._describe_range()
                ),
                param,
                ctx,
            )

        return rv

    def _clamp(self, bound: float, dir: t.Literal[1, -1], open: bool) -> float:
        """Find the valid value to clamp to bound in the given
        direction.

        :param bound: The boundary value.
        :param dir: 1 or -1 indicating the direction to move.
        :param open: If true, the range does not include the bound.
        """
        raise NotImplementedError

    def _describe_range(self) -> str:
        """Describe the range for use in help text."""
        if self.min is None:
            op = "<" if self.max_open else "<="
            return f"x{op}{self.max}"

        if self.max is None:
            op = ">" if self.min_open else ">="
            return f"x{op}{self.min}"

        lop = "<" if self.min_open else "<="
        rop = "<" if self.max_open else "<="
        return f"{self.min}{lop}x{rop}{self.max}"

    def __repr__(self) -> str:
        clamp = " clamped" if self.clamp else ""
        return f"<{type(self).__name__} {self._describe_range()}{clamp}>"


class IntParamType(_NumberParamTypeBase):
    name = "integer"
    _number_class = int

    def __repr__(self) -> str:
        return "INT"


class IntRange(_NumberRangeBase, IntParamType):
    """Restrict an :data:`click.INT` value to a range of accepted
    values. See :ref:`ranges`.

    If ``min`` or ``max`` are not passed, any value is accepted in that
    direction. If ``min_open`` or ``max_open`` are enabled, the
    corresponding boundary is not included in the range.

    If ``clamp`` is enabled, a value outside the range is clamped to the
    boundary instead of failing.

    .. versionchanged:: 8.0
        Added the ``min_open`` and ``max_open`` parameters.
    """

    name = "integer range"

    def _clamp(  # type: ignore
        self, bound: int, dir: t.Literal[1, -1], open: bool
    ) -> int:
        if not open:
            return bound

        return bound + dir


class FloatParamType(_NumberParamTypeBase):
    name = "float"
    _number_class = float

    def __repr__(self) -> str:
        return "FLOAT"


class FloatRange(_NumberRangeBase, FloatParamType):
    """Restrict a :data:`click.FLOAT` value to a range of accepted
    values. See :ref:`ranges`.

    If ``min`` or ``max`` are not passed, any value is accepted in that
    direction. If ``min_open`` or ``max_open`` are enabled, the
    corresponding boundary is not included in the range.

    If ``clamp`` is enabled, a value outside the range is clamped to the
    boundary instead of failing. This is not supported if either
    boundary is marked ``open``.

    .. versionchanged:: 8.0
        Added the ``min_open`` and ``max_open`` parameters.
    """

    name = "float range"

    def __init__(
        self,
        min: float | None = None,
        max: float | None = None,
        min_open: bool = False,
        max_open: bool = False,
        clamp: bool = False,
    ) -> None:
        super().__init__(
            min=min, max=max, min_open=min_open, max_open=max_open, clamp=clamp
        )

        if (min_open or max_open) and clamp:
            raise TypeError("Clamping is not supported for open bounds.")

    def _clamp(self, bound: float, dir: t.Literal[1, -1], open: bool) -> float:
        if not open:
            return bound

        # Could use math.nextafter here, but clamping an
        # open float range doesn't seem to be particularly useful. It's
        # left up to the user to write a callback to do it if needed.
        raise RuntimeError("Clamping is not supported for open bounds.")


class BoolParamType(ParamType):
    name = "boolean"

    def convert(
        self, value: t.Any, param: Parameter | None, ctx: Context | None
    ) -> t.Any:
        if value in {False, True}:
            return bool(value)

        norm = value.strip().lower()

        if norm in {"1", "true", "t", "yes", "y", "on"}:
            return True

        if norm in {"0", "false", "f", "no", "n", "off"}:
            return False

        self.fail(
            _("{value!r} is not a valid boolean.").format(value=value), param, ctx
        )

    def __repr__(self) -> str:
        return "BOOL"


class UUIDParameterType(ParamType):
    name = "uuid"

    def convert(
        self, value: t.Any, param: Parameter | None, ctx: Context | None
    ) -> t.Any:
        import uuid

        if isinstance(value, uuid.UUID):
            return value

        value = value.strip()

        try:
            return uuid.UUID(value)
        except ValueError:
            self.fail(
                _("{value!r} is not a valid UUID.").format(value=value), param, ctx
            )

    def __repr__(self) -> str:
        return "UUID"


class File(ParamType):
    """Declares a parameter to be a file for reading or writing.  The file
    is automatically closed once the context tears down (after the command
    finished working).

    Files can be opened for reading or writing.  The special value ``-``
    indicates stdin or stdout depending on the mode.

    By default, the file is opened for reading text data, but it can also be
    opened in binary mode or for writing.  The encoding parameter can be used
    to force a specific encoding.

    The `lazy` flag controls if the file should be opened immediately or upon
    first IO. The default is to be non-lazy for standard input and output
    streams as well as files opened for reading, `lazy` otherwise. When opening a
    file lazily for reading, it is still opened temporarily for validation, but
    will not be held open until first IO. lazy is mainly useful when opening
    for writing to avoid creating the file until it is needed.

    Files can also be opened atomically in which case all writes go into a
    separate file in the same folder and upon completion the file will
    be moved over to the original location.  This is useful if a file
    regularly read by other users is modified.

    See :ref:`file-args` for more information.

    .. versionchanged:: 2.0
        Added the ``atomic`` parameter.
    """

    name = "filename"
    envvar_list_splitter: t.ClassVar[str] = os.path.pathsep

    def __init__(
        self,
        mode: str = "r",
        encoding: str | None = None,
        errors: str | None = "strict",
        lazy: bool | None = None,
        atomic: bool = False,
    ) -> None:
        self.mode = mode
        self.encoding = encoding
        self.errors = errors
        self.lazy = lazy
        self.atomic = atomic

    def to_info_dict(self) -> dict[str, t.Any]:
        info_dict = super().to_info_dict()
        info_dict.update(mode=self.mode, encoding=self.encoding)
        return info_dict

    def resolve_lazy_flag(self, value: str | os.PathLike[str]) -> bool:
        if self.lazy is not None:
            return self.lazy
        if os.fspath(value) == "-":
            return False
        elif "w" in self.mode:
            return True
        return False

    def convert(
        self,
        value: str | os.PathLike[str] | t.IO[t.Any],
        param: Parameter | None,
        ctx: Context | None,
    ) -> t.IO[t.Any]:
        if _is_file_like(value):
            return value

        value = t.cast("str | os.PathLike[str]", value)

        try:
            lazy = self.resolve_lazy_flag(value)

            if lazy:
                lf = LazyFile(
                    value, self.mode, self.encoding, self.errors, atomic=self.atomic
                )

                if ctx is not None:
                    ctx.call_on_close(lf.close_intelligently)

                return t.cast("t.IO[t.Any]", lf)

            f, should_close = open_stream(
                value, self.mode, self.encoding, self.errors, atomic=self.atomic
            )

            # If a context is provided, we automatically close the file
            # at the end of the context execution (or flush out).  If a
            # context does not exist, it's the caller's responsibility to
            # properly close the file.  This for instance happens when the
            # type is used with prompts.
            if ctx is not None:
                if should_close:
                    ctx.call_on_close(safecall(f.close))
                else:
                    ctx.call_on_close(safecall(f.flush))

            return f
        except OSError as e:
            self.fail(f"'{format_filename(value)}': {e.strerror}", param, ctx)

    def shell_complete(
        self, ctx: Context, param: Parameter, incomplete: str
    ) -> list[CompletionItem]:
        """Return a special completion marker that tells the completion
        system to use the shell to provide file path completions.

        :param ctx: Invocation context for this command.
        :param param: The parameter that is requesting completion.
        :param incomplete: Value being completed. May be empty.

        .. versionadded:: 8.0
        """
        from click.shell_completion import CompletionItem

        return [CompletionItem(incomplete, type="file")]


def _is_file_like(value: t.Any) -> te.TypeGuard[t.IO[t.Any]]:
    return hasattr(value, "read") or hasattr(value, "write")


class Path(ParamType):
    """The ``Path`` type is similar to the :class:`File` type, but
    returns the filename instead of an open file. Various checks can be
    enabled to validate the type of file and permissions.

    :param exists: The file or directory needs to exist for the value to
        be valid. If this is not set to ``True``, and the file does not
        exist, then all further checks are silently skipped.
    :param file_okay: Allow a file as a value.
    :param dir_okay: Allow a directory as a value.
    :param readable: if true, a readable check is performed.
    :param writable: if true, a writable check is performed.
    :param executable: if true, an executable check is performed.
    :param resolve_path: Make the value absolute and resolve any
        symlinks. A ``~`` is not expanded, as this is supposed to be
        done by the shell only.
    :param allow_dash: Allow a single dash as a value, which indicates
        a standard stream (but does not open it). Use
        :func:`~click.open_file` to handle opening this value.
    :param path_type: Convert the incoming path value to this type. If
        ``None``, keep Python's default, which is ``str``. Useful to
        convert to :class:`pathlib.Path`.

    .. versionchanged:: 8.1
        Added the ``executable`` parameter.

    .. versionchanged:: 8.0
        Allow passing ``path_type=pathlib.Path``.

    .. versionchanged:: 6.0
        Added the ``allow_dash`` parameter.
    """

    envvar_list_splitter: t.ClassVar[str] = os.path.pathsep

    def __init__(
        self,
        exists: bool = False,
        file_okay: bool = True,
        dir_okay: bool = True,
        writable: bool = False,
        readable: bool = True,
        resolve_path: bool = False,
        allow_dash: bool = False,
        path_type: type[t.Any] | None = None,
        executable: bool = False,
    ):
        self.exists = exists
        self.file_okay = file_okay
        self.dir_okay = dir_okay
        self.readable = readable
        self.writable = writable
        self.executable = executable
        self.resolve_path = resolve_path
        self.allow_dash = allow_dash
        self.type = path_type

        if self.file_okay and not self.dir_okay:
            self.name: str = _("file")
        elif self.dir_okay and not self.file_okay:
            self.name = _("directory")
        else:
            self.name = _("path")

    def to_info_dict(self) -> dict[str, t.Any]:
        info_dict = super().to_info_dict()
        info_dict.update(
            exists=self.exists,
            file_okay=self.file_okay,
            dir_okay=self.dir_okay,
            writable=self.writable,
            readable=self.readable,
            allow_dash=self.allow_dash,
        )
        return info_dict

    def coerce_path_result(
        self, value: str | os.PathLike[str]
    ) -> str | bytes | os.PathLike[str]:
        if self.type is not None and not isinstance(value, self.type):
            if self.type is str:
                return os.fsdecode(value)
            elif self.type is bytes:
                return os.fsencode(value)
            else:
                return t.cast("os.PathLike[str]", self.type(value))

        return value

    def convert(
        self,
        value: str | os.PathLike[str],
        param: Parameter | None,
        ctx: Context | None,
    ) -> str | bytes | os.PathLike[str]:
        rv = value

        is_dash = self.file_okay and self.allow_dash and rv in (b"-", "-")

        if not is_dash:
            if self.resolve_path:
                rv = os.path.realpath(rv)

            try:
                st = os.stat(rv)
            except OSError:
                if not self.exists:
                    return self.coerce_path_result(rv)
                self.fail(
                    _("{name} {filename!r} does not exist.").format(
                        name=self.name.title(), filename=format_filename(value)
                    ),
                    param,
                    ctx,
                )

            if not self.file_okay and stat.S_ISREG(st.st_mode):
                self.fail(
                    _("{name} {filename!r} is a file.").format(
                        name=self.name.title(), filename=format_filename(value)
                    ),
                    param,
                    ctx,
                )
            if not self.dir_okay and stat.S_ISDIR(st.st_mode):
                self.fail(
                    _("{name} {filename!r} is a directory.").format(
                        name=self.name.title(), filename=format_filename(value)
                    ),
                    param,
                    ctx,
                )

            if self.readable and not os.access(rv, os.R_OK):
                self.fail(
                    _("{name} {filename!r} is not readable.").format(
                        name=self.name.title(), filename=format_filename(value)
                    ),
                    param,
                    ctx,
                )

            if self.writable and not os.access(rv, os.W_OK):
                self.fail(
                    _("{name} {filename!r} is not writable.").format(
                        name=self.name.title(), filename=format_filename(value)
                    ),
                    param,
                    ctx,
                )

            if self.executable and not os.access(value, os.X_OK):
                self.fail(
                    _("{name} {filename!r} is not executable.").format(
                        name=self.name.title(), filename=format_filename(value)
                    ),
                    param,
                    ctx,
                )

        return self.coerce_path_result(rv)

    def shell_complete(
        self, ctx: Context, param: Parameter, incomplete: str
    ) -> list[CompletionItem]:
        """Return a special completion marker that tells the completion
        system to use the shell to provide path completions for only
        directories or any paths.

        :param ctx: Invocation context for this command.
        :param param: The parameter that is requesting completion.
        :param incomplete: Value being completed. May be empty.

        .. versionadded:: 8.0
        """
        from click.shell_completion import CompletionItem

        type = "dir" if self.dir_okay and not self.file_okay else "file"
        return [CompletionItem(incomplete, type=type)]


class Tuple(CompositeParamType):
    """The default behavior of Click is to apply a type on a value directly.
    This works well in most cases, except for when `nargs` is set to a fixed
    count and different types should be used for different items.  In this
    case the :class:`Tuple` type can be used.  This type can only be used
    if `nargs` is set to a fixed number.

    For more information see :ref:`tuple-type`.

    This can be selected by using a Python tuple literal as a type.

    :param types: a list of types that should be used for the tuple items.
    """

    def __init__(self, types: cabc.Sequence[type[t.Any] | ParamType]) -> None:
        self.types: cabc.Sequence[ParamType] = [convert_type(ty) for ty in types]

    def to_info_dict(self) -> dict[str, t.Any]:
        info_dict = super().to_info_dict()
        info_dict["types"] = [t.to_info_dict() for t in self.types]
        return info_dict

    @property
    def name(self) -> str:  # type: ignore
        return f"<{' '.join(ty.name for ty in self.types)}>"

    @property
    def arity(self) -> int:  # type: ignore
        return len(self.types)

    def convert(
        self, value: t.Any, param: Parameter | None, ctx: Context | None
    ) -> t.Any:
        len_type = len(self.types)
        len_value = len(value)

        if len_value != len_type:
            self.fail(
                ngettext(
                    "{len_type} values are required, but {len_value} was given.",
                    "{len_type} values are required, but {len_value} were given.",
                    len_value,
                ).format(len_type=len_type, len_value=len_value),
                param=param,
                ctx=ctx,
            )

        return tuple(
            ty(x, param, ctx) for ty, x in zip(self.types, value, strict=False)
        )


def convert_type(ty: t.Any | None, default: t.Any | None = None) -> ParamType:
    """Find the most appropriate :class:`ParamType` for the given Python
    type. If the type isn't provided, it can be inferred from a default
    value.
    """
    guessed_type = False

    if ty is None and default is not None:
        if isinstance(default, (tuple, list)):
            # If the default is empty, ty will remain None and will
            # return STRING.
            if default:
                item = default[0]

                # A tuple of tuples needs to detect the inner types.
                # Can't call convert recursively because that would
                # incorrectly unwind the tuple to a single type.
                if isinstance(item, (tuple, list)):
                    ty = tuple(map(type, item))
                else:
                    ty = type(item)
        else:
            ty = type(default)

        guessed_type = True

    if isinstance(ty, tuple):
        return Tuple(ty)

    if isinstance(ty, ParamType):
        return ty

    if ty is str or ty is None:
        return STRING

    if ty is int:
        return INT

    if ty is float:
        return FLOAT

    if ty is bool:
        return BOOL

    if guessed_type:
        return STRING

    if __debug__:
        try:
            if issubclass(ty, ParamType):
                raise AssertionError(
                    f"Attempted to use an uninstantiated parameter type ({ty})."
                )
        except TypeError:
            # ty is an instance (correct), so issubclass fails.
            pass

    return FuncParamType(ty)


#: A dummy parameter type that just does nothing.  From a user's
#: perspective this appears to just be the same as `STRING` but
#: internally no string conversion takes place if the input was bytes.
#: This is usually useful when working with file paths as they can
#: appear in bytes and unicode.
#:
#: For path related uses the :class:`Path` type is a better choice but
#: there are situations where an unprocessed type is useful which is why
#: it is is provided.
#:
#: .. versionadded:: 4.0
UNPROCESSED = UnprocessedParamType()

#: A unicode string parameter type which is the implicit default.  This
#: can also be selected by using ``str`` as type.
STRING = StringParamType()

#: An integer parameter.  This can also be selected by using ``int`` as
#: type.
INT = IntParamType()

#: A floating point value parameter.  This can also be selected by using
#: ``float`` as type.
FLOAT = FloatParamType()

#: A boolean parameter.  This is the default for boolean flags.  This can
#: also be selected by using ``bool`` as a type.
BOOL = BoolParamType()

#: A UUID parameter.
UUID = UUIDParameterType()


class OptionHelpExtra(t.TypedDict, total=False):
    envvars: tuple[str, ...]
    default: str
    range: str
    required: str
