from __future__ import annotations

import collections.abc as cabc
from contextlib import contextmanager
from gettext import gettext as _

from ._compat import term_len
from .parser import _split_opt

# Can force a width.  This is used by the test system
FORCED_WIDTH: int | None = None


def measure_table(rows: cabc.Iterable[tuple[str, str]]) -> tuple[int, ...]:
    widths: dict[int, int] = {}

    for row in rows:
        for idx, col in enumerate(row):
            widths[idx] = max(widths.get(idx, 0), term_len(col))

    return tuple(y for x, y in sorted(widths.items()))


def iter_rows(
    rows: cabc.Iterable[tuple[str, str]], col_count: int
) -> cabc.Iterator[tuple[str, ...]]:
    for row in rows:
        yield row + ("",) * (col_count - len(row))


def wrap_text(
    text: str,
    width: int = 78,
    initial_indent: str = "",
    subsequent_indent: str = "",
    preserve_paragraphs: bool = False,
) -> str:
    """A helper function that intelligently wraps text.  By default, it
    assumes that it operates on a single paragraph of text but if the
    `preserve_paragraphs` parameter is provided it will intelligently
    handle paragraphs (defined by two empty lines).

    If paragraphs are handled, a paragraph can be prefixed with an empty
    line containing the ``\\b`` character (``\\x08``) to indicate that
    no rewrapping should happen in that block.

    :param text: the text that should be rewrapped.
    :param width: the maximum width for the text.
    :param initial_indent: the initial indent that should be placed on the
                           first line as a string.
    :param subsequent_indent: the indent string that should be placed on
                              each consecutive line.
    :param preserve_paragraphs: if this flag is set then the wrapping will
                                intelligently handle paragraphs.
    """
    from ._textwrap import TextWrapper

    text = text.expandtabs()
    wrapper = TextWrapper(
        width,
        initial_indent=initial_indent,
        subsequent_indent=subsequent_indent,
        replace_whitespace=False,
    )
    if not preserve_paragraphs:
        return wrapper.fill(text)

    p: list[tuple[int, bool, str]] = []
    buf: list[str] = []
    indent = None

    def _flush_par() -> None:
        if not buf:
            return
        if buf[0].strip() == "\b":
            p.append((indent or 0, True, "\n".join(buf[1:])))
        else:
            p.append((indent or 0, False, " ".join(buf)))
        del buf[:]

    for line in text.splitlines():
        if not line:
            _flush_par()
            indent = None
        else:
            if indent is None:
                orig_len = term_len(line)
                line = line.lstrip()
                indent = orig_len - term_len(line)
            buf.append(line)
    _flush_par()

    rv = []
    for indent, raw, text in p:
        with wrapper.extra_indent(" " * indent):
            if raw:
                rv.append(wrapper.indent_only(text))
            else:
                rv.append(wrapper.fill(text))

    return "\n\n".join(rv)


class HelpFormatter:
    """This class helps with formatting text-based help pages.  It's
    usually just needed for very special internal cases, but it's also
    exposed so that developers can write their own fancy outputs.

    At present, it always writes into memory.

    :param indent_increment: the additional increment for each level.
    :param width: the width for the text.  This defaults to the terminal
                  width clamped to a maximum of 78.
    """

    def __init__(
        self,
        indent_increment: int = 2,
        width: int | None = None,
        max_width: int | None = None,
    ) -> None:
        import shutil

        self.indent_increment = indent_increment
        if max_width is None:
            max_width = 80
        if width is None:
            width = FORCED_WIDTH
            if width is None:
                width = max(min(shutil.get_terminal_size().columns, max_width) - 2, 50)
        self.width = width
        self.current_indent: int = 0
        self.buffer: list[str] = []

    def write(self, string: str) -> None:
        """Writes a unicode string into the internal buffer."""
        self.buffer.append(string)

    def indent(self) -> None:
        """Increases the indentation."""
        self.current_indent += self.indent_increment

    def dedent(self) -> None:
        """Decreases the indentation."""
        self.current_indent -= self.indent_increment

    def write_usage(self, prog: str, args: str = "", prefix: str | None = None) -> None:
        """Writes a usage line into the buffer.

        :param prog: the program name.
        :param args: whitespace separated list of arguments.
        :param prefix: The prefix for the first line. Defaults to
            ``"Usage: "``.
        """
        if prefix is None:
            prefix = f"{_('Usage:')} "

        usage_prefix = f"{prefix:>{self.current_indent}}{prog} "
        text_width = self.width - self.current_indent

        if text_width >= (term_len(usage_prefix) + 20):
            # The arguments will fit to the right of the prefix.
            indent = " " * term_len(usage_prefix)
            self.write(
                wrap_text(
                    args,
                    text_width,
                    initial_indent=usage_prefix,
                    subsequent_indent=indent,
                )
            )
        else:
            # The prefix is too long, put the arguments on the next line.
            self.write(usage_prefix)
            self.write("\n")
            indent = " " * (max(self.current_indent, term_len(prefix)) + 4)
            self.write(
                wrap_text(
                    args, text_width, initial_indent=indent, subsequent_indent=indent
                )
            )

        self.write("\n")

    def write_heading(self, heading: str) -> None:
        """Writes a heading into the buffer."""
        self.write(f"{'':>{self.current_indent}}{heading}:\n")

    def write_paragraph(self) -> None:
        """Writes a paragraph into the buffer."""
        if self.buffer:
            self.write("\n")

    def write_text(self, text: str) -> None:
        """Writes re-indented text into the buffer.  This rewraps and
        preserves paragraphs.
        """
        indent = " " * self.current_indent
        self.write(
            wrap_text(
                text,
                self.width,
                initial_indent=indent,
                subsequent_indent=indent,
                preserve_paragraphs=True,
            )
        )
        self.write("\n")

    def write_dl(
        self,
        rows: cabc.Sequence[tuple[str, str]],
        col_max: int = 30,
        col_spacing: int = 2,
    ) -> None:
        """Writes a definition list into the buffer.  This is how options
        and commands are usually formatted.

        :param rows: a list of two item tuples for the terms and values.
        :param col_max: the maximum width of the first column.
        :param col_spacing: the number of spaces between the first and
                            second column.
        """
        rows = list(rows)
        widths = measure_table(rows)
        if len(widths) != 2:
            raise TypeError("Expected two columns for definition list")

        first_col = min(widths[0], col_max) + col_spacing

        for first, second in iter_rows(rows, len(widths)):
            self.write(f"{'':>{self.current_indent}}{first}")
            if not second:
                self.write("\n")
                continue
            if term_len(first) <= first_col - col_spacing:
                self.write(" " * (first_col - term_len(first)))
            else:
                self.write("\n")
                self.write(" " * (first_col + self.current_indent))

            text_width = max(self.width - first_col - 2, 10)
            wrapped_text = wrap_text(second, text_width, preserve_paragraphs=True)
            lines = wrapped_text.splitlines()

            if lines:
                self.write(f"{lines[0]}\n")

                for line in lines[1:]:
                    self.write(f"{'':>{first_col + self.current_indent}}{line}\n")
            else:
                self.write("\n")

    @contextmanager
    def section(self, name: str) -> cabc.Iterator[None]:
        """Helpful context manager that writes a paragraph, a heading,
        and the indents.

        :param name: the section name that is written as heading.
        """
        self.write_paragraph()
        self.write_heading(name)
        self.indent()
        try:
            yield
        finally:
            self.dedent()

    @contextmanager
    def indentation(self) -> cabc.Iterator[None]:
        """A context manager that increases the indentation."""
        self.indent()
        try:
            yield
        finally:
            self.dedent()

    def getvalue(self) -> str:
        """Returns the buffer contents."""
        return "".join(self.buffer)


def join_options(options: cabc.Sequence[str]) -> tuple[str, bool]:
    """Given a list of option strings this joins them in the most appropriate
    way and returns them in the form ``(formatted_string,
    any_prefix_is_slash)`` where the second item in the tuple is a flag that
    indicates if any of the option prefixes was a slash.
    """
    rv = []
    any_prefix_is_slash = False

    for opt in options:
        prefix = _split_opt(opt)[0]

        if prefix == "/":
            any_prefix_is_slash = True

        rv.append((len(prefix), opt))

    rv.sort(key=lambda x: x[0])
    return ", ".join(x[1] for x in rv), any_prefix_is_slash
