"""
This module started out as largely a copy paste from the stdlib's
optparse module with the features removed that we do not need from
optparse because we implement them in Click on a higher level (for
instance type handling, help formatting and a lot more).

The plan is to remove more and more from here over time.

The reason this is a different module and not optparse from the stdlib
is that there are differences in 2.x and 3.x about the error messages
generated and optparse in the stdlib uses gettext for no good reason
and might cause us issues.

Click uses parts of optparse written by Gregory P. Ward and maintained
by the Python Software Foundation. This is limited to code in parser.py.

Copyright 2001-2006 Gregory P. Ward. All rights reserved.
Copyright 2002-2006 Python Software Foundation. All rights reserved.
"""

# This code uses parts of optparse written by Gregory P. Ward and
# maintained by the Python Software Foundation.
# Copyright 2001-2006 Gregory P. Ward
# Copyright 2002-2006 Python Software Foundation
from __future__ import annotations

import collections.abc as cabc
import typing as t
from collections import deque
from gettext import gettext as _
from gettext import ngettext

from .exceptions import BadArgumentUsage
from .exceptions import BadOptionUsage
from .exceptions import NoSuchOption
from .exceptions import UsageError

if t.TYPE_CHECKING:
    from .core import Argument as CoreArgument
    from .core import Context
    from .core import Option as CoreOption
    from .core import Parameter as CoreParameter

V = t.TypeVar("V")

# Sentinel value that indicates an option was passed as a flag without a
# value but is not a flag option. Option.consume_value uses this to
# prompt or use the flag_value.
_flag_needs_value = object()


def _unpack_args(
    args: cabc.Sequence[str], nargs_spec: cabc.Sequence[int]
) -> tuple[cabc.Sequence[str | cabc.Sequence[str | None] | None], list[str]]:
    """Given an iterable of arguments and an iterable of nargs specifications,
    it returns a tuple with all the unpacked arguments at the first index
    and all remaining arguments as the second.

    The nargs specification is the number of arguments that should be consumed
    or `-1` to indicate that this position should eat up all the remainders.

    Missing items are filled with `None`.
    """
    args = deque(args)
    nargs_spec = deque(nargs_spec)
    rv: list[str | tuple[str | None, ...] | None] = []
    spos: int | None = None

    def _fetch(c: deque[V]) -> V | None:
        try:
            if spos is None:
                return c.popleft()
            else:
                return c.pop()
        except IndexError:
            return None

    while nargs_spec:
        nargs = _fetch(nargs_spec)

        if nargs is None:
            continue

        if nargs == 1:
            rv.append(_fetch(args))
        elif nargs > 1:
            x = [_fetch(args) for _ in range(nargs)]

            # If we're reversed, we're pulling in the arguments in reverse,
            # so we need to turn them around.
            if spos is not None:
                x.reverse()

            rv.append(tuple(x))
        elif nargs < 0:
            if spos is not None:
                raise TypeError("Cannot have two nargs < 0")

            spos = len(rv)
            rv.append(None)

    # spos is the position of the wildcard (star).  If it's not `None`,
    # we fill it with the remainder.
    if spos is not None:
        rv[spos] = tuple(args)
        args = []
        rv[spos + 1 :] = reversed(rv[spos + 1 :])

    return tuple(rv), list(args)


def _split_opt(opt: str) -> tuple[str, str]:
    first = opt[:1]
    if first.isalnum():
        return "", opt
    if opt[1:2] == first:
        return opt[:2], opt[2:]
    return first, opt[1:]


def _normalize_opt(opt: str, ctx: Context | None) -> str:
    if ctx is None or ctx.token_normalize_func is None:
        return opt
    prefix, opt = _split_opt(opt)
    return f"{prefix}{ctx.token_normalize_func(opt)}"


class _Option:
    def __init__(
        self,
        obj: CoreOption,
        opts: cabc.Sequence[str],
        dest: str | None,
        action: str | None = None,
        nargs: int = 1,
        const: t.Any | None = None,
    ):
        self._short_opts = []
        self._long_opts = []
        self.prefixes: set[str] = set()

        for opt in opts:
            prefix, value = _split_opt(opt)
            if not prefix:
                raise ValueError(f"Invalid start character for option ({opt})")
            self.prefixes.add(prefix[0])
            if len(prefix) == 1 and len(value) == 1:
                self._short_opts.append(opt)
            else:
                self._long_opts.append(opt)
                self.prefixes.add(prefix)

        if action is None:
            action = "store"

        self.dest = dest
        self.action = action
        self.nargs = nargs
        self.const = const
        self.obj = obj

    @property
    def takes_value(self) -> bool:
        return self.action in ("store", "append")

    def process(self, value: t.Any, state: _ParsingState) -> None:
        if self.action == "store":
            state.opts[self.dest] = value  # type: ignore
        elif self.action == "store_const":
            state.opts[self.dest] = self.const  # type: ignore
        elif self.action == "append":
            state.opts.setdefault(self.dest, []).append(value)  # type: ignore
        elif self.action == "append_const":
            state.opts.setdefault(self.dest, []).append(self.const)  # type: ignore
        elif self.action == "count":
            state.opts[self.dest] = state.opts.get(self.dest, 0) + 1  # type: ignore
        else:
            raise ValueError(f"unknown action '{self.action}'")
        state.order.append(self.obj)


class _Argument:
    def __init__(self, obj: CoreArgument, dest: str | None, nargs: int = 1):
        self.dest = dest
        self.nargs = nargs
        self.obj = obj

    def process(
        self,
        value: str | cabc.Sequence[str | None] | None,
        state: _ParsingState,
    ) -> None:
        if self.nargs > 1:
            assert value is not None
            holes = sum(1 for x in value if x is None)
            if holes == len(value):
                value = None
            elif holes != 0:
                raise BadArgumentUsage(
                    _("Argument {name!r} takes {nargs} values.").format(
                        name=self.dest, nargs=self.nargs
                    )
                )

        if self.nargs == -1 and self.obj.envvar is not None and value == ():
            # Replace empty tuple with None so that a value from the
            # environment may be tried.
            value = None

        state.opts[self.dest] = value  # type: ignore
        state.order.append(self.obj)


class _ParsingState:
    def __init__(self, rargs: list[str]) -> None:
        self.opts: dict[str, t.Any] = {}
        self.largs: list[str] = []
        self.rargs = rargs
        self.order: list[CoreParameter] = []


class _OptionParser:
    """The option parser is an internal class that is ultimately used to
    parse options and arguments.  It's modelled after optparse and brings
    a similar but vastly simplified API.  It should generally not be used
    directly as the high level Click classes wrap it for you.

    It's not nearly as extensible as optparse or argparse as it does not
    implement features that are implemented on a higher level (such as
    types or defaults).

    :param ctx: optionally the :class:`~click.Context` where this parser
                should go with.

    .. deprecated:: 8.2
        Will be removed in Click 9.0.
    """

    def __init__(self, ctx: Context | None = None) -> None:
        #: The :class:`~click.Context` for this parser.  This might be
        #: `None` for some advanced use cases.
        self.ctx = ctx
        #: This controls how the parser deals with interspersed arguments.
        #: If this is set to `False`, the parser will stop on the first
        #: non-option.  Click uses this to implement nested subcommands
        #: safely.
        self.allow_interspersed_args: bool = True
        #: This tells the parser how to deal with unknown options.  By
        #: default it will error out (which is sensible), but there is a
        #: second mode where it will ignore it and continue processing
        #: after shifting all the unknown options into the resulting args.
        self.ignore_unknown_options: bool = False

        if ctx is not None:
            self.allow_interspersed_args = ctx.allow_interspersed_args
            self.ignore_unknown_options = ctx.ignore_unknown_options

        self._short_opt: dict[str, _Option] = {}
        self._long_opt: dict[str, _Option] = {}
        self._opt_prefixes = {"-", "--"}
        self._args: list[_Argument] = []

    def add_option(
        self,
        obj: CoreOption,
        opts: cabc.Sequence[str],
        dest: str | None,
        action: str | None = None,
        nargs: int = 1,
        const: t.Any | None = None,
    ) -> None:
        """Adds a new option named `dest` to the parser.  The destination
        is not inferred (unlike with optparse) and needs to be explicitly
        provided.  Action can be any of ``store``, ``store_const``,
        ``append``, ``append_const`` or ``count``.

        The `obj` can be used to identify the option in the order list
        that is returned from the parser.
        """
        opts = [_normalize_opt(opt, self.ctx) for opt in opts]
        option = _Option(obj, opts, dest, action=action, nargs=nargs, const=const)
        self._opt_prefixes.update(option.prefixes)
        for opt in option._short_opts:
            self._short_opt[opt] = option
        for opt in option._long_opts:
            self._long_opt[opt] = option

    def add_argument(self, obj: CoreArgument, dest: str | None, nargs: int = 1) -> None:
        """Adds a positional argument named `dest` to the parser.

        The `obj` can be used to identify the option in the order list
        that is returned from the parser.
        """
        self._args.append(_Argument(obj, dest=dest, nargs=nargs))

    def parse_args(
        self, args: list[str]
    ) -> tuple[dict[str, t.Any], list[str], list[CoreParameter]]:
        """Parses positional arguments and returns ``(values, args, order)``
        for the parsed options and arguments as well as the leftover
        arguments if there are any.  The order is a list of objects as they
        appear on the command line.  If arguments appear multiple times they
        will be memorized multiple times as well.
        """
        state = _ParsingState(args)
        try:
            self._process_args_for_options(state)
            self._process_args_for_args(state)
        except UsageError:
            if self.ctx is None or not self.ctx.resilient_parsing:
                raise
        return state.opts, state.largs, state.order

    def _process_args_for_args(self, state: _ParsingState) -> None:
        pargs, args = _unpack_args(
            state.largs + state.rargs, [x.nargs for x in self._args]
        )

        for idx, arg in enumerate(self._args):
            arg.process(pargs[idx], state)

        state.largs = args
        state.rargs = []

    def _process_args_for_options(self, state: _ParsingState) -> None:
        while state.rargs:
            arg = state.rargs.pop(0)
            arglen = len(arg)
            # Double dashes always handled explicitly regardless of what
            # prefixes are valid.
            if arg == "--":
                return
            elif arg[:1] in self._opt_prefixes and arglen > 1:
                self._process_opts(arg, state)
            elif self.allow_interspersed_args:
                state.largs.append(arg)
            else:
                state.rargs.insert(0, arg)
                return

        # Say this is the original argument list:
        # [arg0, arg1, ..., arg(i-1), arg(i), arg(i+1), ..., arg(N-1)]
        #                            ^
        # (we are about to process arg(i)).
        #
        # Then rargs is [arg(i), ..., arg(N-1)] and largs is a *subset* of
        # [arg0, ..., arg(i-1)] (any options and their arguments will have
        # been removed from largs).
        #
        # The while loop will usually consume 1 or more arguments per pass.
        # If it consumes 1 (eg. arg is an option that takes no arguments),
        # then after _process_arg() is done the situation is:
        #
        #   largs = subset of [arg0, ..., arg(i)]
        #   rargs = [arg(i+1), ..., arg(N-1)]
        #
        # If allow_interspersed_args is false, largs will always be
        # *empty* -- still a subset of [arg0, ..., arg(i-1)], but
        # not a very interesting subset!

    def _match_long_opt(
        self, opt: str, explicit_value: str | None, state: _ParsingState
    ) -> None:
        if opt not in self._long_opt:
            from difflib import get_close_matches

            possibilities = get_close_matches(opt, self._long_opt)
            raise NoSuchOption(opt, possibilities=possibilities, ctx=self.ctx)

        option = self._long_opt[opt]
        if option.takes_value:
            # At this point it's safe to modify rargs by injecting the
            # explicit value, because no exception is raised in this
            # branch.  This means that the inserted value will be fully
            # consumed.
            if explicit_value is not None:
                state.rargs.insert(0, explicit_value)

            value = self._get_value_from_state(opt, option, state)

        elif explicit_value is not None:
            raise BadOptionUsage(
                opt, _("Option {name!r} does not take a value.").format(name=opt)
            )

        else:
            value = None

        option.process(value, state)

    def _match_short_opt(self, arg: str, state: _ParsingState) -> None:
        stop = False
        i = 1
        prefix = arg[0]
        unknown_options = []

        for ch in arg[1:]:
            opt = _normalize_opt(f"{prefix}{ch}", self.ctx)
            option = self._short_opt.get(opt)
            i += 1

            if not option:
                if self.ignore_unknown_options:
                    unknown_options.append(ch)
                    continue
                raise NoSuchOption(opt, ctx=self.ctx)
            if option.takes_value:
                # Any characters left in arg?  Pretend they're the
                # next arg, and stop consuming characters of arg.
                if i < len(arg):
                    state.rargs.insert(0, arg[i:])
                    stop = True

                value = self._get_value_from_state(opt, option, state)

            else:
                value = None

            option.process(value, state)

            if stop:
                break

        # If we got any unknown options we recombine the string of the
        # remaining options and re-attach the prefix, then report that
        # to the state as new larg.  This way there is basic combinatorics
        # that can be achieved while still ignoring unknown arguments.
        if self.ignore_unknown_options and unknown_options:
            state.largs.append(f"{prefix}{''.join(unknown_options)}")

    def _get_value_from_state(
        self, option_name: str, option: _Option, state: _ParsingState
    ) -> t.Any:
        nargs = option.nargs

        if len(state.rargs) < nargs:
            if option.obj._flag_needs_value:
                # Option allows omitting the value.
                value = _flag_needs_value
            else:
                raise BadOptionUsage(
                    option_name,
                    ngettext(
                        "Option {name!r} requires an argument.",
                        "Option {name!r} requires {nargs} arguments.",
                        nargs,
                    ).format(name=option_name, nargs=nargs),
                )
        elif nargs == 1:
            next_rarg = state.rargs[0]

            if (
                option.obj._flag_needs_value
                and isinstance(next_rarg, str)
                and next_rarg[:1] in self._opt_prefixes
                and len(next_rarg) > 1
            ):
                # The next arg looks like the start of an option, don't
                # use it as the value if omitting the value is allowed.
                value = _flag_needs_value
            else:
                value = state.rargs.pop(0)
        else:
            value = tuple(state.rargs[:nargs])
            del state.rargs[:nargs]

        return value

    def _process_opts(self, arg: str, state: _ParsingState) -> None:
        explicit_value = None
        # Long option handling happens in two parts.  The first part is
        # supporting explicitly attached values.  In any case, we will try
        # to long match the option first.
        if "=" in arg:
            long_opt, explicit_value = arg.split("=", 1)
        else:
            long_opt = arg
        norm_long_opt = _normalize_opt(long_opt, self.ctx)

        # At this point we will match the (assumed) long option through
        # the long option matching code.  Note that this allows options
        # like "-foo" to be matched as long options.
        try:
            self._match_long_opt(norm_long_opt, explicit_value, state)
        except NoSuchOption:
            # At this point the long option matching failed, and we need
            # to try with short options.  However there is a special rule
            # which says, that if we have a two character options prefix
            # (applies to "--foo" for instance), we do not dispatch to the
            # short option code and will instead raise the no option
            # error.
            if arg[:2] not in self._opt_prefixes:
                self._match_short_opt(arg, state)
                return

            if not self.ignore_unknown_options:
                raise

            state.largs.append(arg)


def __getattr__(name: str) -> object:
    import warnings

    if name in {
        "OptionParser",
        "Argument",
        "Option",
        "split_opt",
        "normalize_opt",
        "ParsingState",
    }:
        warnings.warn(
            f"'parser.{name}' is deprecated and will be removed in Click 9.0."
            " The old parser is available in 'optparse'.",
            DeprecationWarning,
            stacklevel=2,
        )
        return globals()[f"_{name}"]

    if name == "split_arg_string":
        from .shell_completion import split_arg_string

        warnings.warn(
            "Importing 'parser.split_arg_string' is deprecated, it will only be"
            " available in 'shell_completion' in Click 9.0.",
            DeprecationWarning,
            stacklevel=2,
        )
        return split_arg_string

    raise AttributeError(name)
