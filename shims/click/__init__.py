"""
Click is a simple Python module inspired by the stdlib optparse to make
writing command line scripts fun. Unlike other modules, it's based
around a simple API that does not come with too much magic and is
composable.
"""

from __future__ import annotations

from .core import Argument as Argument
from .core import Command as Command
from .core import CommandCollection as CommandCollection
from .core import Context as Context
from .core import Group as Group
from .core import Option as Option
from .core import Parameter as Parameter
from .decorators import argument as argument
from .decorators import command as command
from .decorators import confirmation_option as confirmation_option
from .decorators import group as group
from .decorators import help_option as help_option
from .decorators import make_pass_decorator as make_pass_decorator
from .decorators import option as option
from .decorators import pass_context as pass_context
from .decorators import pass_obj as pass_obj
from .decorators import password_option as password_option
from .decorators import version_option as version_option
from .exceptions import Abort as Abort
from .exceptions import BadArgumentUsage as BadArgumentUsage
from .exceptions import BadOptionUsage as BadOptionUsage
from .exceptions import BadParameter as BadParameter
from .exceptions import ClickException as ClickException
from .exceptions import FileError as FileError
from .exceptions import MissingParameter as MissingParameter
from .exceptions import NoSuchOption as NoSuchOption
from .exceptions import UsageError as UsageError
from .formatting import HelpFormatter as HelpFormatter
from .formatting import wrap_text as wrap_text
from .globals import get_current_context as get_current_context
from .termui import clear as clear
from .termui import confirm as confirm
from .termui import echo_via_pager as echo_via_pager
from .termui import edit as edit
from .termui import getchar as getchar
from .termui import launch as launch
from .termui import pause as pause
from .termui import progressbar as progressbar
from .termui import prompt as prompt
from .termui import secho as secho
from .termui import style as style
from .termui import unstyle as unstyle
from .types import BOOL as BOOL
from .types import Choice as Choice
from .types import DateTime as DateTime
from .types import File as File
from .types import FLOAT as FLOAT
from .types import FloatRange as FloatRange
from .types import INT as INT
from .types import IntRange as IntRange
from .types import ParamType as ParamType
from .types import Path as Path
from .types import STRING as STRING
from .types import Tuple as Tuple
from .types import UNPROCESSED as UNPROCESSED
from .types import UUID as UUID
from .utils import echo as echo
from .utils import format_filename as format_filename
from .utils import get_app_dir as get_app_dir
from .utils import get_binary_stream as get_binary_stream
from .utils import get_text_stream as get_text_stream
from .utils import open_file as open_file


def __getattr__(name: str) -> object:
    import warnings

    if name == "BaseCommand":
        from .core import _BaseCommand

        warnings.warn(
            "'BaseCommand' is deprecated and will be removed in Click 9.0. Use"
            " 'Command' instead.",
            DeprecationWarning,
            stacklevel=2,
        )
        return _BaseCommand

    if name == "MultiCommand":
        from .core import _MultiCommand

        warnings.warn(
            "'MultiCommand' is deprecated and will be removed in Click 9.0. Use"
            " 'Group' instead.",
            DeprecationWarning,
            stacklevel=2,
        )
        return _MultiCommand

    if name == "OptionParser":
        from .parser import _OptionParser

        warnings.warn(
            "'OptionParser' is deprecated and will be removed in Click 9.0. The"
            " old parser is available in 'optparse'.",
            DeprecationWarning,
            stacklevel=2,
        )
        return _OptionParser

    if name == "__version__":
        import importlib.metadata
        import warnings

        warnings.warn(
            "The '__version__' attribute is deprecated and will be removed in"
            " Click 9.1. Use feature detection or"
            " 'importlib.metadata.version(\"click\")' instead.",
            DeprecationWarning,
            stacklevel=2,
        )
        return importlib.metadata.version("click")

    raise AttributeError(name)
