from __future__ import annotations

import collections.abc as cabc
import os
import re
import typing as t
from gettext import gettext as _

from .core import Argument
from .core import Command
from .core import Context
from .core import Group
from .core import Option
from .core import Parameter
from .core import ParameterSource
from .utils import echo


def shell_complete(
    cli: Command,
    ctx_args: cabc.MutableMapping[str, t.Any],
    prog_name: str,
    complete_var: str,
    instruction: str,
) -> int:
    """Perform shell completion for the given CLI program.

    :param cli: Command being called.
    :param ctx_args: Extra arguments to pass to
        ``cli.make_context``.
    :param prog_name: Name of the executable in the shell.
    :param complete_var: Name of the environment variable that holds
        the completion instruction.
    :param instruction: Value of ``complete_var`` with the completion
        instruction and shell, in the form ``instruction_shell``.
    :return: Status code to exit with.
    """
    shell, _, instruction = instruction.partition("_")
    comp_cls = get_completion_class(shell)

    if comp_cls is None:
        return 1

    comp = comp_cls(cli, ctx_args, prog_name, complete_var)

    if instruction == "source":
        echo(comp.source())
        return 0

    if instruction == "complete":
        echo(comp.complete())
        return 0

    return 1


class CompletionItem:
    """Represents a completion value and metadata about the value. The
    default metadata is ``type`` to indicate special shell handling,
    and ``help`` if a shell supports showing a help string next to the
    value.

    Arbitrary parameters can be passed when creating the object, and
    accessed using ``item.attr``. If an attribute wasn't passed,
    accessing it returns ``None``.

    :param value: The completion suggestion.
    :param type: Tells the shell script to provide special completion
        support for the type. Click uses ``"dir"`` and ``"file"``.
    :param help: String shown next to the value if supported.
    :param kwargs: Arbitrary metadata. The built-in implementations
        don't use this, but custom type completions paired with custom
        shell support could use it.
    """

    __slots__ = ("value", "type", "help", "_info")

    def __init__(
        self,
        value: t.Any,
        type: str = "plain",
        help: str | None = None,
        **kwargs: t.Any,
    ) -> None:
        self.value: t.Any = value
        self.type: str = type
        self.help: str | None = help
        self._info = kwargs

    def __getattr__(self, name: str) -> t.Any:
        return self._info.get(name)


# Only Bash >= 4.4 has the nosort option.
_SOURCE_BASH = """\
%(complete_func)s() {
    local IFS=$'\\n'
    local response

    response=$(env COMP_WORDS="${COMP_WORDS[*]}" COMP_CWORD=$COMP_CWORD \
%(complete_var)s=bash_complete $1)

    for completion in $response; do
        IFS=',' read type value <<< "$completion"

        if [[ $type == 'dir' ]]; then
            COMPREPLY=()
            compopt -o dirnames
        elif [[ $type == 'file' ]]; then
            COMPREPLY=()
            compopt -o default
        elif [[ $type == 'plain' ]]; then
            COMPREPLY+=($value)
        fi
    done

    return 0
}

%(complete_func)s_setup() {
    complete -o nosort -F %(complete_func)s %(prog_name)s
}

%(complete_func)s_setup;
"""

_SOURCE_ZSH = """\
#compdef %(prog_name)s

%(complete_func)s() {
    local -a completions
    local -a completions_with_descriptions
    local -a response
    (( ! $+commands[%(prog_name)s] )) && return 1

    response=("${(@f)$(env COMP_WORDS="${words[*]}" COMP_CWORD=$((CURRENT-1)) \
%(complete_var)s=zsh_complete %(prog_name)s)}")

    for type key descr in ${response}; do
        if [[ "$type" == "plain" ]]; then
            if [[ "$descr" == "_" ]]; then
                completions+=("$key")
            else
                completions_with_descriptions+=("$key":"$descr")
            fi
        elif [[ "$type" == "dir" ]]; then
            _path_files -/
        elif [[ "$type" == "file" ]]; then
            _path_files -f
        fi
    done

    if [ -n "$completions_with_descriptions" ]; then
        _describe -V unsorted completions_with_descriptions -U
    fi

    if [ -n "$completions" ]; then
        compadd -U -V unsorted -a completions
    fi
}

if [[ $zsh_eval_context[-1] == loadautofunc ]]; then
    # autoload from fpath, call function directly
    %(complete_func)s "$@"
else
    # eval/source/. command, register function for later
    compdef %(complete_func)s %(prog_name)s
fi
"""

_SOURCE_FISH = """\
function %(complete_func)s;
    set -l response (env %(complete_var)s=fish_complete COMP_WORDS=(commandline -cp) \
COMP_CWORD=(commandline -t) %(prog_name)s);

    for completion in $response;
        set -l metadata (string split "," $completion);

        if test $metadata[1] = "dir";
            __fish_complete_directories $metadata[2];
        else if test $metadata[1] = "file";
            __fish_complete_path $metadata[2];
        else if test $metadata[1] = "plain";
            echo $metadata[2];
        end;
    end;
end;

complete --no-files --command %(prog_name)s --arguments \
"(%(complete_func)s)";
"""


class ShellComplete:
    """Base class for providing shell completion support. A subclass for
    a given shell will override attributes and methods to implement the
    completion instructions (``source`` and ``complete``).

    :param cli: Command being called.
    :param prog_name: Name of the executable in the shell.
    :param complete_var: Name of the environment variable that holds
        the completion instruction.

    .. versionadded:: 8.0
    """

    name: t.ClassVar[str]
    """Name to register the shell as with :func:`add_completion_class`.
    This is used in completion instructions (``{name}_source`` and
    ``{name}_complete``).
    """

    source_template: t.ClassVar[str]
    """Completion script template formatted by :meth:`source`. This must
    be provided by subclasses.
    """

    def __init__(
        self,
        cli: Command,
        ctx_args: cabc.MutableMapping[str, t.Any],
        prog_name: str,
        complete_var: str,
    ) -> None:
        self.cli = cli
        self.ctx_args = ctx_args
        self.prog_name = prog_name
        self.complete_var = complete_var

    @property
    def func_name(self) -> str:
        """The name of the shell function defined by the completion
        script.
        """
        safe_name = re.sub(r"\W*", "", self.prog_name.replace("-", "_"), flags=re.ASCII)
        return f"_{safe_name}_completion"

    def source_vars(self) -> dict[str, t.Any]:
        """Vars for formatting :attr:`source_template`.

        By default this provides ``complete_func``, ``complete_var``,
        and ``prog_name``.
        """
        return {
            "complete_func": self.func_name,
            "complete_var": self.complete_var,
            "prog_name": self.prog_name,
        }

    def source(self) -> str:
        """Produce the shell script that defines the completion
        function. By default this ``%``-style formats
        :attr:`source_template` with the dict returned by
        :meth:`source_vars`.
        """
        return self.source_template % self.source_vars()

    def get_completion_args(self) -> tuple[list[str], str]:
        """Use the env vars defined by the shell script to return a
        tuple of ``args, incomplete``. This must be implemented by
        subclasses.
        """
        raise NotImplementedError

    def get_completions(self, args: list[str], incomplete: str) -> list[CompletionItem]:
        """Determine the context and last complete command or parameter
        from the complete args. Call that object's ``shell_complete``
        method to get the completions for the incomplete value.

        :param args: List of complete args before the incomplete value.
        :param incomplete: Value being completed. May be empty.
        """
        ctx = _resolve_context(self.cli, self.ctx_args, self.prog_name, args)
        obj, incomplete = _resolve_incomplete(ctx, args, incomplete)
        return obj.shell_complete(ctx, incomplete)

    def format_completion(self, item: CompletionItem) -> str:
        """Format a completion item into the form recognized by the
        shell script. This must be implemented by subclasses.

        :param item: Completion item to format.
        """
        raise NotImplementedError

    def complete(self) -> str:
        """Produce the completion data to send back to the shell.

        By default this calls :meth:`get_completion_args`, gets the
        completions, then calls :meth:`format_completion` for each
        completion.
        """
        args, incomplete = self.get_completion_args()
        completions = self.get_completions(args, incomplete)
        out = [self.format_completion(item) for item in completions]
        return "\n".join(out)


class BashComplete(ShellComplete):
    """Shell completion for Bash."""

    name = "bash"
    source_template = _SOURCE_BASH

    @staticmethod
    def _check_version() -> None:
        import shutil
        import subprocess

        bash_exe = shutil.which("bash")

        if bash_exe is None:
            match = None
        else:
            output = subprocess.run(
                [bash_exe, "--norc", "-c", 'echo "${BASH_VERSION}"'],
                stdout=subprocess.PIPE,
            )
            match = re.search(r"^(\d+)\.(\d+)\.\d+", output.stdout.decode())

        if match is not None:
            major, minor = match.groups()

            if major < "4" or major == "4" and minor < "4":
                echo(
                    _(
                        "Shell completion is not supported for Bash"
                        " versions older than 4.4."
                    ),
                    err=True,
                )
        else:
            echo(
                _("Couldn't detect Bash version, shell completion is not supported."),
                err=True,
            )

    def source(self) -> str:
        self._check_version()
        return super().source()

    def get_completion_args(self) -> tuple[list[str], str]:
        cwords = split_arg_string(os.environ["COMP_WORDS"])
        cword = int(os.environ["COMP_CWORD"])
        args = cwords[1:cword]

        try:
            incomplete = cwords[cword]
        except IndexError:
            incomplete = ""

        return args, incomplete

    def format_completion(self, item: CompletionItem) -> str:
        return f"{item.type},{item.value}"


class ZshComplete(ShellComplete):
    """Shell completion for Zsh."""

    name = "zsh"
    source_template = _SOURCE_ZSH

    def get_completion_args(self) -> tuple[list[str], str]:
        cwords = split_arg_string(os.environ["COMP_WORDS"])
        cword = int(os.environ["COMP_CWORD"])
        args = cwords[1:cword]

        try:
            incomplete = cwords[cword]
        except IndexError:
            incomplete = ""

        return args, incomplete

    def format_completion(self, item: CompletionItem) -> str:
        return f"{item.type}\n{item.value}\n{item.help if item.help else '_'}"


class FishComplete(ShellComplete):
    """Shell completion for Fish."""

    name = "fish"
    source_template = _SOURCE_FISH

    def get_completion_args(self) -> tuple[list[str], str]:
        cwords = split_arg_string(os.environ["COMP_WORDS"])
        incomplete = os.environ["COMP_CWORD"]
        args = cwords[1:]

        # Fish stores the partial word in both COMP_WORDS and
        # COMP_CWORD, remove it from complete args.
        if incomplete and args and args[-1] == incomplete:
            args.pop()

        return args, incomplete

    def format_completion(self, item: CompletionItem) -> str:
        if item.help:
            return f"{item.type},{item.value}\t{item.help}"

        return f"{item.type},{item.value}"


ShellCompleteType = t.TypeVar("ShellCompleteType", bound="type[ShellComplete]")


_available_shells: dict[str, type[ShellComplete]] = {
    "bash": BashComplete,
    "fish": FishComplete,
    "zsh": ZshComplete,
}


def add_completion_class(
    cls: ShellCompleteType, name: str | None = None
) -> ShellCompleteType:
    """Register a :class:`ShellComplete` subclass under the given name.
    The name will be provided by the completion instruction environment
    variable during completion.

    :param cls: The completion class that will handle completion for the
        shell.
    :param name: Name to register the class under. Defaults to the
        class's ``name`` attribute.
    """
    if name is None:
        name = cls.name

    _available_shells[name] = cls

    return cls


def get_completion_class(shell: str) -> type[ShellComplete] | None:
    """Look up a registered :class:`ShellComplete` subclass by the name
    provided by the completion instruction environment variable. If the
    name isn't registered, returns ``None``.

    :param shell: Name the class is registered under.
    """
    return _available_shells.get(shell)


def split_arg_string(string: str) -> list[str]:
    """Split an argument string as with :func:`shlex.split`, but don't
    fail if the string is incomplete. Ignores a missing closing quote or
    incomplete escape sequence and uses the partial token as-is.

    .. code-block:: python

        split_arg_string("example 'my file")
        ["example", "my file"]

        split_arg_string("example my\\")
        ["example", "my"]

    :param string: String to split.

    .. versionchanged:: 8.2
        Moved to ``shell_completion`` from ``parser``.
    """
    import shlex

    lex = shlex.shlex(string, posix=True)
    lex.whitespace_split = True
    lex.commenters = ""
    out = []

    try:
        for token in lex:
            out.append(token)
    except ValueError:
        # Raised when end-of-string is reached in an invalid state. Use
        # the partial token as-is. The quote or escape character is in
        # lex.state, not lex.token.
        out.append(lex.token)

    return out


def _is_incomplete_argument(ctx: Context, param: Parameter) -> bool:
    """Determine if the given parameter is an argument that can still
    accept values.

    :param ctx: Invocation context for the command represented by the
        parsed complete args.
    :param param: Argument object being checked.
    """
    if not isinstance(param, Argument):
        return False

    assert param.name is not None
    # Will be None if expose_value is False.
    value = ctx.params.get(param.name)
    return (
        param.nargs == -1
        or ctx.get_parameter_source(param.name) is not ParameterSource.COMMANDLINE
        or (
            param.nargs > 1
            and isinstance(value, (tuple, list))
            and len(value) < param.nargs
        )
    )


def _start_of_option(ctx: Context, value: str) -> bool:
    """Check if the value looks like the start of an option."""
    if not value:
        return False

    c = value[0]
    return c in ctx._opt_prefixes


def _is_incomplete_option(ctx: Context, args: list[str], param: Parameter) -> bool:
    """Determine if the given parameter is an option that needs a value.

    :param args: List of complete args before the incomplete value.
    :param param: Option object being checked.
    """
    if not isinstance(param, Option):
        return False

    if param.is_flag or param.count:
        return False

    last_option = None

    for index, arg in enumerate(reversed(args)):
        if index + 1 > param.nargs:
            break

        if _start_of_option(ctx, arg):
            last_option = arg

    return last_option is not None and last_option in param.opts


def _resolve_context(
    cli: Command,
    ctx_args: cabc.MutableMapping[str, t.Any],
    prog_name: str,
    args: list[str],
) -> Context:
    """Produce the context hierarchy starting with the command and
    traversing the complete arguments. This only follows the commands,
    it doesn't trigger input prompts or callbacks.

    :param cli: Command being called.
    :param prog_name: Name of the executable in the shell.
    :param args: List of complete args before the incomplete value.
    """
    ctx_args["resilient_parsing"] = True
    with cli.make_context(prog_name, args.copy(), **ctx_args) as ctx:
        args = ctx._protected_args + ctx.args

        while args:
            command = ctx.command

            if isinstance(command, Group):
                if not command.chain:
                    name, cmd, args = command.resolve_command(ctx, args)

                    if cmd is None:
                        return ctx

                    with cmd.make_context(
                        name, args, parent=ctx, resilient_parsing=True
                    ) as sub_ctx:
                        ctx = sub_ctx
                        args = ctx._protected_args + ctx.args
                else:
                    sub_ctx = ctx

                    while args:
                        name, cmd, args = command.resolve_command(ctx, args)

                        if cmd is None:
                            return ctx

                        with cmd.make_context(
                            name,
                            args,
                            parent=ctx,
                            allow_extra_args=True,
                            allow_interspersed_args=False,
                            resilient_parsing=True,
                        ) as sub_sub_ctx:
                            sub_ctx = sub_sub_ctx
                            args = sub_ctx.args

                    ctx = sub_ctx
                    args = [*sub_ctx._protected_args, *sub_ctx.args]
            else:
                break

    return ctx


def _resolve_incomplete(
    ctx: Context, args: list[str], incomplete: str
) -> tuple[Command | Parameter, str]:
    """Find the Click object that will handle the completion of the
    incomplete value. Return the object and the incomplete value.

    :param ctx: Invocation context for the command represented by
        the parsed complete args.
    :param args: List of complete args before the incomplete value.
    :param incomplete: Value being completed. May be empty.
    """
    # Different shells treat an "=" between a long option name and
    # value differently. Might keep the value joined, return the "="
    # as a separate item, or return the split name and value. Always
    # split and discard the "=" to make completion easier.
    if incomplete == "=":
        incomplete = ""
    elif "=" in incomplete and _start_of_option(ctx, incomplete):
        name, _, incomplete = incomplete.partition("=")
        args.append(name)

    # The "--" marker tells Click to stop treating values as options
    # even if they start with the option character. If it hasn't been
    # given and the incomplete arg looks like an option, the current
    # command will provide option name completions.
    if "--" not in args and _start_of_option(ctx, incomplete):
        return ctx.command, incomplete

    params = ctx.command.get_params(ctx)

    # If the last complete arg is an option name with an incomplete
    # value, the option will provide value completions.
    for param in params:
        if _is_incomplete_option(ctx, args, param):
            return param, incomplete

    # It's not an option name or value. The first argument without a
    # parsed value will provide value completions.
    for param in params:
        if _is_incomplete_argument(ctx, param):
            return param, incomplete

    # There were no unparsed arguments, the command may be a group that
    # will provide command name completions.
    return ctx.command, incomplete
