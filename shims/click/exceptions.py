from __future__ import annotations

import collections.abc as cabc
import typing as t
from gettext import gettext as _
from gettext import ngettext

from ._compat import get_text_stderr
from .globals import resolve_color_default
from .utils import echo
from .utils import format_filename

if t.TYPE_CHECKING:
    from .core import Command
    from .core import Context
    from .core import Parameter


def _join_param_hints(param_hint: cabc.Sequence[str] | str | None) -> str | None:
    if param_hint is not None and not isinstance(param_hint, str):
        return " / ".join(repr(x) for x in param_hint)

    return param_hint


class ClickException(Exception):
    """An exception that Click can handle and show to the user."""

    #: The exit code for this exception.
    exit_code = 1

    def __init__(self, message: str) -> None:
        super().__init__(message)
        # The context will be removed by the time we print the message, so cache
        # the color settings here to be used later on (in `show`)
        self.show_color: bool | None = resolve_color_default()
        self.message = message

    def format_message(self) -> str:
        return self.message

    def __str__(self) -> str:
        return self.message

    def show(self, file: t.IO[t.Any] | None = None) -> None:
        if file is None:
            file = get_text_stderr()

        echo(
            _("Error: {message}").format(message=self.format_message()),
            file=file,
            color=self.show_color,
        )


class UsageError(ClickException):
    """An internal exception that signals a usage error.  This typically
    aborts any further handling.

    :param message: the error message to display.
    :param ctx: optionally the context that caused this error.  Click will
                fill in the context automatically in some situations.
    """

    exit_code = 2

    def __init__(self, message: str, ctx: Context | None = None) -> None:
        super().__init__(message)
        self.ctx = ctx
        self.cmd: Command | None = self.ctx.command if self.ctx else None

    def show(self, file: t.IO[t.Any] | None = None) -> None:
        if file is None:
            file = get_text_stderr()
        color = None
        hint = ""
        if (
            self.ctx is not None
            and self.ctx.command.get_help_option(self.ctx) is not None
        ):
            hint = _("Try '{command} {option}' for help.").format(
                command=self.ctx.command_path, option=self.ctx.help_option_names[0]
            )
            hint = f"{hint}\n"
        if self.ctx is not None:
            color = self.ctx.color
            echo(f"{self.ctx.get_usage()}\n{hint}", file=file, color=color)
        echo(
            _("Error: {message}").format(message=self.format_message()),
            file=file,
            color=color,
        )


class BadParameter(UsageError):
    """An exception that formats out a standardized error message for a
    bad parameter.  This is useful when thrown from a callback or type as
    Click will attach contextual information to it (for instance, which
    parameter it is).

    .. versionadded:: 2.0

    :param param: the parameter object that caused this error.  This can
                  be left out, and Click will attach this info itself
                  if possible.
    :param param_hint: a string that shows up as parameter name.  This
                       can be used as alternative to `param` in cases
                       where custom validation should happen.  If it is
                       a string it's used as such, if it's a list then
                       each item is quoted and separated.
    """

    def __init__(
        self,
        message: str,
        ctx: Context | None = None,
        param: Parameter | None = None,
        param_hint: str | None = None,
    ) -> None:
        super().__init__(message, ctx)
        self.param = param
        self.param_hint = param_hint

    def format_message(self) -> str:
        if self.param_hint is not None:
            param_hint = self.param_hint
        elif self.param is not None:
            param_hint = self.param.get_error_hint(self.ctx)  # type: ignore
        else:
            return _("Invalid value: {message}").format(message=self.message)

        return _("Invalid value for {param_hint}: {message}").format(
            param_hint=_join_param_hints(param_hint), message=self.message
        )


class MissingParameter(BadParameter):
    """Raised if click required an option or argument but it was not
    provided when invoking the script.

    .. versionadded:: 4.0

    :param param_type: a string that indicates the type of the parameter.
                       The default is to inherit the parameter type from
                       the given `param`.  Valid values are ``'parameter'``,
                       ``'option'`` or ``'argument'``.
    """

    def __init__(
        self,
        message: str | None = None,
        ctx: Context | None = None,
        param: Parameter | None = None,
        param_hint: str | None = None,
        param_type: str | None = None,
    ) -> None:
        super().__init__(message or "", ctx, param, param_hint)
        self.param_type = param_type

    def format_message(self) -> str:
        if self.param_hint is not None:
            param_hint: str | None = self.param_hint
        elif self.param is not None:
            param_hint = self.param.get_error_hint(self.ctx)  # type: ignore
        else:
            param_hint = None

        param_hint = _join_param_hints(param_hint)
        param_hint = f" {param_hint}" if param_hint else ""

        param_type = self.param_type
        if param_type is None and self.param is not None:
            param_type = self.param.param_type_name

        msg = self.message
        if self.param is not None:
            msg_extra = self.param.type.get_missing_message(
                param=self.param, ctx=self.ctx
            )
            if msg_extra:
                if msg:
                    msg += f". {msg_extra}"
                else:
                    msg = msg_extra

        msg = f" {msg}" if msg else ""

        # Translate param_type for known types.
        if param_type == "argument":
            missing = _("Missing argument")
        elif param_type == "option":
            missing = _("Missing option")
        elif param_type == "parameter":
            missing = _("Missing parameter")
        else:
            missing = _("Missing {param_type}").format(param_type=param_type)

        return f"{missing}{param_hint}.{msg}"

    def __str__(self) -> str:
        if not self.message:
            param_name = self.param.name if self.param else None
            return _("Missing parameter: {param_name}").format(param_name=param_name)
        else:
            return self.message


class NoSuchOption(UsageError):
    """Raised if click attempted to handle an option that does not
    exist.

    .. versionadded:: 4.0
    """

    def __init__(
        self,
        option_name: str,
        message: str | None = None,
        possibilities: cabc.Sequence[str] | None = None,
        ctx: Context | None = None,
    ) -> None:
        if message is None:
            message = _("No such option: {name}").format(name=option_name)

        super().__init__(message, ctx)
        self.option_name = option_name
        self.possibilities = possibilities

    def format_message(self) -> str:
        if not self.possibilities:
            return self.message

        possibility_str = ", ".join(sorted(self.possibilities))
        suggest = ngettext(
            "Did you mean {possibility}?",
            "(Possible options: {possibilities})",
            len(self.possibilities),
        ).format(possibility=possibility_str, possibilities=possibility_str)
        return f"{self.message} {suggest}"


class BadOptionUsage(UsageError):
    """Raised if an option is generally supplied but the use of the option
    was incorrect.  This is for instance raised if the number of arguments
    for an option is not correct.

    .. versionadded:: 4.0

    :param option_name: the name of the option being used incorrectly.
    """

    def __init__(
        self, option_name: str, message: str, ctx: Context | None = None
    ) -> None:
        super().__init__(message, ctx)
        self.option_name = option_name


class BadArgumentUsage(UsageError):
    """Raised if an argument is generally supplied but the use of the argument
    was incorrect.  This is for instance raised if the number of values
    for an argument is not correct.

    .. versionadded:: 6.0
    """


class NoArgsIsHelpError(UsageError):
    def __init__(self, ctx: Context) -> None:
        self.ctx: Context
        super().__init__(ctx.get_help(), ctx=ctx)

    def show(self, file: t.IO[t.Any] | None = None) -> None:
        echo(self.format_message(), file=file, err=True, color=self.ctx.color)


class FileError(ClickException):
    """Raised if a file cannot be opened."""

    def __init__(self, filename: str, hint: str | None = None) -> None:
        if hint is None:
            hint = _("unknown error")

        super().__init__(hint)
        self.ui_filename: str = format_filename(filename)
        self.filename = filename

    def format_message(self) -> str:
        return _("Could not open file {filename!r}: {message}").format(
            filename=self.ui_filename, message=self.message
        )


class Abort(RuntimeError):
    """An internal signalling exception that signals Click to abort."""


class Exit(RuntimeError):
    """An exception that indicates that the application should exit with some
    status code.

    :param code: the status code to exit with.
    """

    __slots__ = ("exit_code",)

    def __init__(self, code: int = 0) -> None:
        self.exit_code: int = code
