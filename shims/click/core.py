from __future__ import annotations

import collections.abc as cabc
import enum
import errno
import inspect
import os
import sys
import typing as t
from collections import abc
from collections import Counter
from contextlib import AbstractContextManager
from contextlib import contextmanager
from contextlib import ExitStack
from functools import update_wrapper
from gettext import gettext as _
from gettext import ngettext
from itertools import repeat
from types import TracebackType

from . import types
from .exceptions import Abort
from .exceptions import BadParameter
from .exceptions import ClickException
from .exceptions import Exit
from .exceptions import MissingParameter
from .exceptions import NoArgsIsHelpError
from .exceptions import UsageError
from .formatting import HelpFormatter
from .formatting import join_options
from .globals import pop_context
from .globals import push_context
from .parser import _flag_needs_value
from .parser import _OptionParser
from .parser import _split_opt
from .termui import confirm
from .termui import prompt
from .termui import style
from .utils import _detect_program_name
from .utils import _expand_args
from .utils import echo
from .utils import make_default_short_help
from .utils import make_str
from .utils import PacifyFlushWrapper

if t.TYPE_CHECKING:
    from .shell_completion import CompletionItem

F = t.TypeVar("F", bound="t.Callable[..., t.Any]")
V = t.TypeVar("V")


def _complete_visible_commands(
    ctx: Context, incomplete: str
) -> cabc.Iterator[tuple[str, Command]]:
    """List all the subcommands of a group that start with the
    incomplete value and aren't hidden.

    :param ctx: Invocation context for the group.
    :param incomplete: Value being completed. May be empty.
    """
    multi = t.cast(Group, ctx.command)

    for name in multi.list_commands(ctx):
        if name.startswith(incomplete):
            command = multi.get_command(ctx, name)

            if command is not None and not command.hidden:
                yield name, command


def _check_nested_chain(
    base_command: Group, cmd_name: str, cmd: Command, register: bool = False
) -> None:
    if not base_command.chain or not isinstance(cmd, Group):
        return

    if register:
        message = (
            f"It is not possible to add the group {cmd_name!r} to another"
            f" group {base_command.name!r} that is in chain mode."
        )
    else:
        message = (
            f"Found the group {cmd_name!r} as subcommand to another group "
            f" {base_command.name!r} that is in chain mode. This is not supported."
        )

    raise RuntimeError(message)


def batch(iterable: cabc.Iterable[V], batch_size: int) -> list[tuple[V, ...]]:
    return list(zip(*repeat(iter(iterable), batch_size), strict=False))


@contextmanager
def augment_usage_errors(
    ctx: Context, param: Parameter | None = None
) -> cabc.Iterator[None]:
    """Context manager that attaches extra information to exceptions."""
    try:
        yield
    except BadParameter as e:
        if e.ctx is None:
            e.ctx = ctx
        if param is not None and e.param is None:
            e.param = param
        raise
    except UsageError as e:
        if e.ctx is None:
            e.ctx = ctx
        raise


def iter_params_for_processing(
    invocation_order: cabc.Sequence[Parameter],
    declaration_order: cabc.Sequence[Parameter],
) -> list[Parameter]:
    """Returns all declared parameters in the order they should be processed.

    The declared parameters are re-shuffled depending on the order in which
    they were invoked, as well as the eagerness of each parameters.

    The invocation order takes precedence over the declaration order. I.e. the
    order in which the user provided them to the CLI is respected.

    This behavior and its effect on callback evaluation is detailed at:
    https://click.palletsprojects.com/en/stable/advanced/#callback-evaluation-order
    """

    def sort_key(item: Parameter) -> tuple[bool, float]:
        try:
            idx: float = invocation_order.index(item)
        except ValueError:
            idx = float("inf")

        return not item.is_eager, idx

    return sorted(declaration_order, key=sort_key)


class ParameterSource(enum.Enum):
    """This is an :class:`~enum.Enum` that indicates the source of a
    parameter's value.

    Use :meth:`click.Context.get_parameter_source` to get the
    source for a parameter by name.

    .. versionchanged:: 8.0
        Use :class:`~enum.Enum` and drop the ``validate`` method.

    .. versionchanged:: 8.0
        Added the ``PROMPT`` value.
    """

    COMMANDLINE = enum.auto()
    """The value was provided by the command line args."""
    ENVIRONMENT = enum.auto()
    """The value was provided with an environment variable."""
    DEFAULT = enum.auto()
    """Used the default specified by the parameter."""
    DEFAULT_MAP = enum.auto()
    """Used a default provided by :attr:`Context.default_map`."""
    PROMPT = enum.auto()
    """Used a prompt to confirm a default or provide a value."""


class Context:
    """The context is a special internal object that holds state relevant
    for the script execution at every single level.  It's normally invisible
    to commands unless they opt-in to getting access to it.

    The context is useful as it can pass internal objects around and can
    control special execution features such as reading data from
    environment variables.

    A context can be used as context manager in which case it will call
    :meth:`close` on teardown.

    :param command: the command class for this context.
    :param parent: the parent context.
    :param info_name: the info name for this invocation.  Generally this
                      is the most descriptive name for the script or
                      command.  For the toplevel script it is usually
                      the name of the script, for commands below it it's
                      the name of the script.
    :param obj: an arbitrary object of user data.
    :param auto_envvar_prefix: the prefix to use for automatic environment
                               variables.  If this is `None` then reading
                               from environment variables is disabled.  This
                               does not affect manually set environment
                               variables which are always read.
    :param default_map: a dictionary (like object) with default values
                        for parameters.
    :param terminal_width: the width of the terminal.  The default is
                           inherit from parent context.  If no context
                           defines the terminal width then auto
                           detection will be applied.
    :param max_content_width: the maximum width for content rendered by
                              Click (this currently only affects help
                              pages).  This defaults to 80 characters if
                              not overridden.  In other words: even if the
                              terminal is larger than that, Click will not
                              format things wider than 80 characters by
                              default.  In addition to that, formatters might
                              add some safety mapping on the right.
    :param resilient_parsing: if this flag is enabled then Click will
                              parse without any interactivity or callback
                              invocation.  Default values will also be
                              ignored.  This is useful for implementing
                              things such as completion support.
    :param allow_extra_args: if this is set to `True` then extra arguments
                             at the end will not raise an error and will be
                             kept on the context.  The default is to inherit
                             from the command.
    :param allow_interspersed_args: if this is set to `False` then options
                                    and arguments cannot be mixed.  The
                                    default is to inherit from the command.
    :param ignore_unknown_options: instructs click to ignore options it does
                                   not know and keeps them for later
                                   processing.
    :param help_option_names: optionally a list of strings that define how
                              the default help parameter is named.  The
                              default is ``['--help']``.
    :param token_normalize_func: an optional function that is used to
                                 normalize tokens (options, choices,
                                 etc.).  This for instance can be used to
                                 implement case insensitive behavior.
    :param color: controls if the terminal supports ANSI colors or not.  The
                  default is autodetection.  This is only needed if ANSI
                  codes are used in texts that Click prints which is by
                  default not the case.  This for instance would affect
                  help output.
    :param show_default: Show the default value for commands. If this
        value is not set, it defaults to the value from the parent
        context. ``Command.show_default`` overrides this default for the
        specific command.

    .. versionchanged:: 8.2
        The ``protected_args`` attribute is deprecated and will be removed in
        Click 9.0. ``args`` will contain remaining unparsed tokens.

    .. versionchanged:: 8.1
        The ``show_default`` parameter is overridden by
        ``Command.show_default``, instead of the other way around.

    .. versionchanged:: 8.0
        The ``show_default`` parameter defaults to the value from the
        parent context.

    .. versionchanged:: 7.1
       Added the ``show_default`` parameter.

    .. versionchanged:: 4.0
        Added the ``color``, ``ignore_unknown_options``, and
        ``max_content_width`` parameters.

    .. versionchanged:: 3.0
        Added the ``allow_extra_args`` and ``allow_interspersed_args``
        parameters.

    .. versionchanged:: 2.0
        Added the ``resilient_parsing``, ``help_option_names``, and
        ``token_normalize_func`` parameters.
    """

    #: The formatter class to create with :meth:`make_formatter`.
    #:
    #: .. versionadded:: 8.0
    formatter_class: type[HelpFormatter] = HelpFormatter

    def __init__(
        self,
        command: Command,
        parent: Context | None = None,
        info_name: str | None = None,
        obj: t.Any | None = None,
        auto_envvar_prefix: str | None = None,
        default_map: cabc.MutableMapping[str, t.Any] | None = None,
        terminal_width: int | None = None,
        max_content_width: int | None = None,
        resilient_parsing: bool = False,
        allow_extra_args: bool | None = None,
        allow_interspersed_args: bool | None = None,
        ignore_unknown_options: bool | None = None,
        help_option_names: list[str] | None = None,
        token_normalize_func: t.Callable[[str], str] | None = None,
        color: bool | None = None,
        show_default: bool | None = None,
    ) -> None:
        #: the parent context or `None` if none exists.
        self.parent = parent
        #: the :class:`Command` for this context.
        self.command = command
        #: the descriptive information name
        self.info_name = info_name
        #: Map of parameter names to their parsed values. Parameters
        #: with ``expose_value=False`` are not stored.
        self.params: dict[str, t.Any] = {}
        #: the leftover arguments.
        self.args: list[str] = []
        #: protected arguments.  These are arguments that are prepended
        #: to `args` when certain parsing scenarios are encountered but
        #: must be never propagated to another arguments.  This is used
        #: to implement nested parsing.
        self._protected_args: list[str] = []
        #: the collected prefixes of the command's options.
        self._opt_prefixes: set[str] = set(parent._opt_prefixes) if parent else set()

        if obj is None and parent is not None:
            obj = parent.obj

        #: the user object stored.
        self.obj: t.Any = obj
        self._meta: dict[str, t.Any] = getattr(parent, "meta", {})

        #: A dictionary (-like object) with defaults for parameters.
        if (
            default_map is None
            and info_name is not None
            and parent is not None
            and parent.default_map is not None
        ):
            default_map = parent.default_map.get(info_name)

        self.default_map: cabc.MutableMapping[str, t.Any] | None = default_map

        #: This flag indicates if a subcommand is going to be executed. A
        #: group callback can use this information to figure out if it's
        #: being executed directly or because the execution flow passes
        #: onwards to a subcommand. By default it's None, but it can be
        #: the name of the subcommand to execute.
        #:
        #: If chaining is enabled this will be set to ``'*'`` in case
        #: any commands are executed.  It is however not possible to
        #: figure out which ones.  If you require this knowledge you
        #: should use a :func:`result_callback`.
        self.invoked_subcommand: str | None = None

        if terminal_width is None and parent is not None:
            terminal_width = parent.terminal_width

        #: The width of the terminal (None is autodetection).
        self.terminal_width: int | None = terminal_width

        if max_content_width is None and parent is not None:
            max_content_width = parent.max_content_width

        #: The maximum width of formatted content (None implies a sensible
        #: default which is 80 for most things).
        self.max_content_width: int | None = max_content_width

        if allow_extra_args is None:
            allow_extra_args = command.allow_extra_args

        #: Indicates if the context allows extra args or if it should
        #: fail on parsing.
        #:
        #: .. versionadded:: 3.0
        self.allow_extra_args = allow_extra_args

        if allow_interspersed_args is None:
            allow_interspersed_args = command.allow_interspersed_args

        #: Indicates if the context allows mixing of arguments and
        #: options or not.
        #:
        #: .. versionadded:: 3.0
        self.allow_interspersed_args: bool = allow_interspersed_args

        if ignore_unknown_options is None:
            ignore_unknown_options = command.ignore_unknown_options

        #: Instructs click to ignore options that a command does not
        #: understand and will store it on the context for later
        #: processing.  This is primarily useful for situations where you
        #: want to call into external programs.  Generally this pattern is
        #: strongly discouraged because it's not possibly to losslessly
        #: forward all arguments.
        #:
        #: .. versionadded:: 4.0
        self.ignore_unknown_options: bool = ignore_unknown_options

        if help_option_names is None:
            if parent is not None:
                help_option_names = parent.help_option_names
            else:
                help_option_names = ["--help"]

        #: The names for the help options.
        self.help_option_names: list[str] = help_option_names

        if token_normalize_func is None and parent is not None:
            token_normalize_func = parent.token_normalize_func

        #: An optional normalization function for tokens.  This is
        #: options, choices, commands etc.
        self.token_normalize_func: t.Callable[[str], str] | None = token_normalize_func

        #: Indicates if resilient parsing is enabled.  In that case Click
        #: will do its best to not cause any failures and default values
        #: will be ignored. Useful for completion.
        self.resilient_parsing: bool = resilient_parsing

        # If there is no envvar prefix yet, but the parent has one and
        # the command on this level has a name, we can expand the envvar
        # prefix automatically.
        if auto_envvar_prefix is None:
            if (
                parent is not None
                and parent.auto_envvar_prefix is not None
                and self.info_name is not None
            ):
                auto_envvar_prefix = (
                    f"{parent.auto_envvar_prefix}_{self.info_name.upper()}"
                )
        else:
            auto_envvar_prefix = auto_envvar_prefix.upper()

        if auto_envvar_prefix is not None:
            auto_envvar_prefix = auto_envvar_prefix.replace("-", "_")

        self.auto_envvar_prefix: str | None = auto_envvar_prefix

        if color is None and parent is not None:
            color = parent.color

        #: Controls if styling output is wanted or not.
        self.color: bool | None = color

        if show_default is None and parent is not None:
            show_default = parent.show_default

        #: Show option default values when formatting help text.
        self.show_default: bool | None = show_default

        self._close_callbacks: list[t.Callable[[], t.Any]] = []
        self._depth = 0
        self._parameter_source: dict[str, ParameterSource] = {}
        self._exit_stack = ExitStack()

    @property
    def protected_args(self) -> list[str]:
        import warnings

        warnings.warn(
            "'protected_args' is deprecated and will be removed in Click 9.0."
            " 'args' will contain remaining unparsed tokens.",
            DeprecationWarning,
            stacklevel=2,
        )
        return self._protected_args

    def to_info_dict(self) -> dict[str, t.Any]:
        """Gather information that could be useful for a tool generating
        user-facing documentation. This traverses the entire CLI
        structure.

        .. code-block:: python

            with Context(cli) as ctx:
                info = ctx.to_info_dict()

        .. versionadded:: 8.0
        """
        return {
            "command": self.command.to_info_dict(self),
            "info_name": self.info_name,
            "allow_extra_args": self.allow_extra_args,
            "allow_interspersed_args": self.allow_interspersed_args,
            "ignore_unknown_options": self.ignore_unknown_options,
            "auto_envvar_prefix": self.auto_envvar_prefix,
        }

    def __enter__(self) -> Context:
        self._depth += 1
        push_context(self)
        return self

    def __exit__(
        self,
        exc_type: type[BaseException] | None,
        exc_value: BaseException | None,
        tb: TracebackType | None,
    ) -> None:
        self._depth -= 1
        if self._depth == 0:
            self.close()
        pop_context()

    @contextmanager
    def scope(self, cleanup: bool = True) -> cabc.Iterator[Context]:
        """This helper method can be used with the context object to promote
        it to the current thread local (see :func:`get_current_context`).
        The default behavior of this is to invoke the cleanup functions which
        can be disabled by setting `cleanup` to `False`.  The cleanup
        functions are typically used for things such as closing file handles.

        If the cleanup is intended the context object can also be directly
        used as a context manager.

        Example usage::

            with ctx.scope():
                assert get_current_context() is ctx

        This is equivalent::

            with ctx:
                assert get_current_context() is ctx

        .. versionadded:: 5.0

        :param cleanup: controls if the cleanup functions should be run or
                        not.  The default is to run these functions.  In
                        some situations the context only wants to be
                        temporarily pushed in which case this can be disabled.
                        Nested pushes automatically defer the cleanup.
        """
        if not cleanup:
            self._depth += 1
        try:
            with self as rv:
                yield rv
        finally:
            if not cleanup:
                self._depth -= 1

    @property
    def meta(self) -> dict[str, t.Any]:
        """This is a dictionary which is shared with all the contexts
        that are nested.  It exists so that click utilities can store some
        state here if they need to.  It is however the responsibility of
        that code to manage this dictionary well.

        The keys are supposed to be unique dotted strings.  For instance
        module paths are a good choice for it.  What is stored in there is
        irrelevant for the operation of click.  However what is important is
        that code that places data here adheres to the general semantics of
        the system.

        Example usage::

            LANG_KEY = f'{__name__}.lang'

            def set_language(value):
                ctx = get_current_context()
                ctx.meta[LANG_KEY] = value

            def get_language():
                return get_current_context().meta.get(LANG_KEY, 'en_US')

        .. versionadded:: 5.0
        """
        return self._meta

    def make_formatter(self) -> HelpFormatter:
        """Creates the :class:`~click.HelpFormatter` for the help and
        usage output.

        To quickly customize the formatter class used without overriding
        this method, set the :attr:`formatter_class` attribute.

        .. versionchanged:: 8.0
            Added the :attr:`formatter_class` attribute.
        """
        return self.formatter_class(
            width=self.terminal_width, max_width=self.max_content_width
        )

    def with_resource(self, context_manager: AbstractContextManager[V]) -> V:
        """Register a resource as if it were used in a ``with``
        statement. The resource will be cleaned up when the context is
        popped.

        Uses :meth:`contextlib.ExitStack.enter_context`. It calls the
        resource's ``__enter__()`` method and returns the result. When
        the context is popped, it closes the stack, which calls the
        resource's ``__exit__()`` method.

        To register a cleanup function for something that isn't a
        context manager, use :meth:`call_on_close`. Or use something
        from :mod:`contextlib` to turn it into a context manager first.

        .. code-block:: python

            @click.group()
            @click.option("--name")
            @click.pass_context
            def cli(ctx):
                ctx.obj = ctx.with_resource(connect_db(name))

        :param context_manager: The context manager to enter.
        :return: Whatever ``context_manager.__enter__()`` returns.

        .. versionadded:: 8.0
        """
        return self._exit_stack.enter_context(context_manager)

    def call_on_close(self, f: t.Callable[..., t.Any]) -> t.Callable[..., t.Any]:
        """Register a function to be called when the context tears down.

        This can be used to close resources opened during the script
        execution. Resources that support Python's context manager
        protocol which would be used in a ``with`` statement should be
        registered with :meth:`with_resource` instead.

        :param f: The function to execute on teardown.
        """
        return self._exit_stack.callback(f)

    def close(self) -> None:
        """Invoke all close callbacks registered with
        :meth:`call_on_close`, and exit all context managers entered
        with :meth:`with_resource`.
        """
        self._exit_stack.close()
        # In case the context is reused, create a new exit stack.
        self._exit_stack = ExitStack()

    @property
    def command_path(self) -> str:
        """The computed command path.  This is used for the ``usage``
        information on the help page.  It's automatically created by
        combining the info names of the chain of contexts to the root.
        """
        rv = ""
        if self.info_name is not None:
            rv = self.info_name
        if self.parent is not None:
            parent_command_path = [self.parent.command_path]

            if isinstance(self.parent.command, Command):
                for param in self.parent.command.get_params(self):
                    parent_command_path.extend(param.get_usage_pieces(self))

            rv = f"{' '.join(parent_command_path)} {rv}"
        return rv.lstrip()

    def find_root(self) -> Context:
        """Finds the outermost context."""
        node = self
        while node.parent is not None:
            node = node.parent
        return node

    def find_object(self, object_type: type[V]) -> V | None:
        """Finds the closest object of a given type."""
        node: Context | None = self

        while node is not None:
            if isinstance(node.obj, object_type):
                return node.obj

            node = node.parent

        return None

    def ensure_object(self, object_type: type[V]) -> V:
        """Like :meth:`find_object` but sets the innermost object to a
        new instance of `object_type` if it does not exist.
        """
        rv = self.find_object(object_type)
        if rv is None:
            self.obj = rv = object_type()
        return rv

    @t.overload
    def lookup_default(
        self, name: str, call: t.Literal[True] = True
    ) -> t.Any | None: ...

    @t.overload
    def lookup_default(
        self, name: str, call: t.Literal[False] = ...
    ) -> t.Any | t.Callable[[], t.Any] | None: ...

    def lookup_default(self, name: str, call: bool = True) -> t.Any | None:
        """Get the default for a parameter from :attr:`default_map`.

        :param name: Name of the parameter.
        :param call: If the default is a callable, call it. Disable to
            return the callable instead.

        .. versionchanged:: 8.0
            Added the ``call`` parameter.
        """
        if self.default_map is not None:
            value = self.default_map.get(name)

            if call and callable(value):
                return value()

            return value

        return None

    def fail(self, message: str) -> t.NoReturn:
        """Aborts the execution of the program with a specific error
        message.

        :param message: the error message to fail with.
        """
        raise UsageError(message, self)

    def abort(self) -> t.NoReturn:
        """Aborts the script."""
        raise Abort()

    def exit(self, code: int = 0) -> t.NoReturn:
        """Exits the application with a given exit code.

        .. versionchanged:: 8.2
            Callbacks and context managers registered with :meth:`call_on_close`
            and :meth:`with_resource` are closed before exiting.
        """
        self.close()
        raise Exit(code)

    def get_usage(self) -> str:
        """Helper method to get formatted usage string for the current
        context and command.
        """
        return self.command.get_usage(self)

    def get_help(self) -> str:
        """Helper method to get formatted help page for the current
        context and command.
        """
        return self.command.get_help(self)

    def _make_sub_context(self, command: Command) -> Context:
        """Create a new context of the same type as this context, but
        for a new command.

        :meta private:
        """
        return type(self)(command, info_name=command.name, parent=self)

    @t.overload
    def invoke(
        self, callback: t.Callable[..., V], /, *args: t.Any, **kwargs: t.Any
    ) -> V: ...

    @t.overload
    def invoke(self, callback: Command, /, *args: t.Any, **kwargs: t.Any) -> t.Any: ...

    def invoke(
        self, callback: Command | t.Callable[..., V], /, *args: t.Any, **kwargs: t.Any
    ) -> t.Any | V:
        """Invokes a command callback in exactly the way it expects.  There
        are two ways to invoke this method:

        1.  the first argument can be a callback and all other arguments and
            keyword arguments are forwarded directly to the function.
        2.  the first argument is a click command object.  In that case all
            arguments are forwarded as well but proper click parameters
            (options and click arguments) must be keyword arguments and Click
            will fill in defaults.

        .. versionchanged:: 8.0
            All ``kwargs`` are tracked in :attr:`params` so they will be
            passed if :meth:`forward` is called at multiple levels.

        .. versionchanged:: 3.2
            A new context is created, and missing arguments use default values.
        """
        if isinstance(callback, Command):
            other_cmd = callback

            if other_cmd.callback is None:
                raise TypeError(
                    "The given command does not have a callback that can be invoked."
                )
            else:
                callback = t.cast("t.Callable[..., V]", other_cmd.callback)

            ctx = self._make_sub_context(other_cmd)

            for param in other_cmd.params:
                if param.name not in kwargs and param.expose_value:
                    kwargs[param.name] = param.type_cast_value(  # type: ignore
                        ctx, param.get_default(ctx)
                    )

            # Track all kwargs as params, so that forward() will pass
            # them on in subsequent calls.
            ctx.params.update(kwargs)
        else:
            ctx = self

        with augment_usage_errors(self):
            with ctx:
                return callback(*args, **kwargs)

    def forward(self, cmd: Command, /, *args: t.Any, **kwargs: t.Any) -> t.Any:
        """Similar to :meth:`invoke` but fills in default keyword
        arguments from the current context if the other command expects
        it.  This cannot invoke callbacks directly, only other commands.

        .. versionchanged:: 8.0
            All ``kwargs`` are tracked in :attr:`params` so they will be
            passed if ``forward`` is called at multiple levels.
        """
        # Can only forward to other commands, not direct callbacks.
        if not isinstance(cmd, Command):
            raise TypeError("Callback is not a command.")

        for param in self.params:
            if param not in kwargs:
                kwargs[param] = self.params[param]

        return self.invoke(cmd, *args, **kwargs)

    def set_parameter_source(self, name: str, source: ParameterSource) -> None:
        """Set the source of a parameter. This indicates the location
        from which the value of the parameter was obtained.

        :param name: The name of the parameter.
        :param source: A member of :class:`~click.core.ParameterSource`.
        """
        self._parameter_source[name] = source

    def get_parameter_source(self, name: str) -> ParameterSource | None:
        """Get the source of a parameter. This indicates the location
        from which the value of the parameter was obtained.

        This can be useful for determining when a user specified a value
        on the command line that is the same as the default value. It
        will be :attr:`~click.core.ParameterSource.DEFAULT` only if the
        value was actually taken from the default.

        :param name: The name of the parameter.
        :rtype: ParameterSource

        .. versionchanged:: 8.0
            Returns ``None`` if the parameter was not provided from any
            source.
        """
        return self._parameter_source.get(name)


class Command:
    """Commands are the basic building block of command line interfaces in
    Click.  A basic command handles command line parsing and might dispatch
    more parsing to commands nested below it.

    :param name: the name of the command to use unless a group overrides it.
    :param context_settings: an optional dictionary with defaults that are
                             passed to the context object.
    :param callback: the callback to invoke.  This is optional.
    :param params: the parameters to register with this command.  This can
                   be either :class:`Option` or :class:`Argument` objects.
    :param help: the help string to use for this command.
    :param epilog: like the help string but it's printed at the end of the
                   help page after everything else.
    :param short_help: the short help to use for this command.  This is
                       shown on the command listing of the parent command.
    :param add_help_option: by default each command registers a ``--help``
                            option.  This can be disabled by this parameter.
    :param no_args_is_help: this controls what happens if no arguments are
                            provided.  This option is disabled by default.
                            If enabled this will add ``--help`` as argument
                            if no arguments are passed
    :param hidden: hide this command from help outputs.
    :param deprecated: If ``True`` or non-empty string, issues a message
                        indicating that the command is deprecated and highlights
                        its deprecation in --help. The message can be customized
                        by using a string as the value.

    .. versionchanged:: 8.2
        This is the base class for all commands, not ``BaseCommand``.
        ``deprecated`` can be set to a string as well to customize the
        deprecation message.

    .. versionchanged:: 8.1
        ``help``, ``epilog``, and ``short_help`` are stored unprocessed,
        all formatting is done when outputting help text, not at init,
        and is done even if not using the ``@command`` decorator.

    .. versionchanged:: 8.0
        Added a ``repr`` showing the command name.

    .. versionchanged:: 7.1
        Added the ``no_args_is_help`` parameter.

    .. versionchanged:: 2.0
        Added the ``context_settings`` parameter.
    """

    #: The context class to create with :meth:`make_context`.
    #:
    #: .. versionadded:: 8.0
    context_class: type[Context] = Context

    #: the default for the :attr:`Context.allow_extra_args` flag.
    allow_extra_args = False

    #: the default for the :attr:`Context.allow_interspersed_args` flag.
    allow_interspersed_args = True

    #: the default for the :attr:`Context.ignore_unknown_options` flag.
    ignore_unknown_options = False

    def __init__(
        self,
        name: str | None,
        context_settings: cabc.MutableMapping[str, t.Any] | None = None,
        callback: t.Callable[..., t.Any] | None = None,
        params: list[Parameter] | None = None,
        help: str | None = None,
        epilog: str | None = None,
        short_help: str | None = None,
        options_metavar: str | None = "[OPTIONS]",
        add_help_option: bool = True,
        no_args_is_help: bool = False,
        hidden: bool = False,
        deprecated: bool | str = False,
    ) -> None:
        #: the name the command thinks it has.  Upon registering a command
        #: on a :class:`Group` the group will default the command name
        #: with this information.  You should instead use the
        #: :class:`Context`\'s :attr:`~Context.info_name` attribute.
        self.name = name

        if context_settings is None:
            context_settings = {}

        #: an optional dictionary with defaults passed to the context.
        self.context_settings: cabc.MutableMapping[str, t.Any] = context_settings

        #: the callback to execute when the command fires.  This might be
        #: `None` in which case nothing happens.
        self.callback = callback
        #: the list of parameters for this command in the order they
        #: should show up in the help page and execute.  Eager parameters
        #: will automatically be handled before non eager ones.
        self.params: list[Parameter] = params or []
        self.help = help
        self.epilog = epilog
        self.options_metavar = options_metavar
        self.short_help = short_help
        self.add_help_option = add_help_option
        self._help_option = None
        self.no_args_is_help = no_args_is_help
        self.hidden = hidden
        self.deprecated = deprecated

    def to_info_dict(self, ctx: Context) -> dict[str, t.Any]:
        return {
            "name": self.name,
            "params": [param.to_info_dict() for param in self.get_params(ctx)],
            "help": self.help,
            "epilog": self.epilog,
            "short_help": self.short_help,
            "hidden": self.hidden,
            "deprecated": self.deprecated,
        }

    def __repr__(self) -> str:
        return f"<{self.__class__.__name__} {self.name}>"

    def get_usage(self, ctx: Context) -> str:
        """Formats the usage line into a string and returns it.

        Calls :meth:`format_usage` internally.
        """
        formatter = ctx.make_formatter()
        self.format_usage(ctx, formatter)
        return formatter.getvalue().rstrip("\n")

    def get_params(self, ctx: Context) -> list[Parameter]:
        params = self.params
        help_option = self.get_help_option(ctx)

        if help_option is not None:
            params = [*params, help_option]

        if __debug__:
            import warnings

            opts = [opt for param in params for opt in param.opts]
            opts_counter = Counter(opts)
            duplicate_opts = (opt for opt, count in opts_counter.items() if count > 1)

            for duplicate_opt in duplicate_opts:
                warnings.warn(
                    (
                        f"The parameter {duplicate_opt} is used more than once. "
                        "Remove its duplicate as parameters should be unique."
                    ),
                    stacklevel=3,
                )

        return params

    def format_usage(self, ctx: Context, formatter: HelpFormatter) -> None:
        """Writes the usage line into the formatter.

        This is a low-level method called by :meth:`get_usage`.
        """
        pieces = self.collect_usage_pieces(ctx)
        formatter.write_usage(ctx.command_path, " ".join(pieces))

    def collect_usage_pieces(self, ctx: Context) -> list[str]:
        """Returns all the pieces that go into the usage line and returns
        it as a list of strings.
        """
        rv = [self.options_metavar] if self.options_metavar else []

        for param in self.get_params(ctx):
            rv.extend(param.get_usage_pieces(ctx))

        return rv

    def get_help_option_names(self, ctx: Context) -> list[str]:
        """Returns the names for the help option."""
        all_names = set(ctx.help_option_names)
        for param in self.params:
            all_names.difference_update(param.opts)
            all_names.difference_update(param.secondary_opts)
        return list(all_names)

    def get_help_option(self, ctx: Context) -> Option | None:
        """Returns the help option object.

        Skipped if :attr:`add_help_option` is ``False``.

        .. versionchanged:: 8.1.8
            The help option is now cached to avoid creating it multiple times.
        """
        help_option_names = self.get_help_option_names(ctx)

        if not help_option_names or not self.add_help_option:
            return None

        # Cache the help option object in private _help_option attribute to
        # avoid creating it multiple times. Not doing this will break the
        # callback odering by iter_params_for_processing(), which relies on
        # object comparison.
        if self._help_option is None:
            # Avoid circular import.
            from .decorators import help_option

            # Apply help_option decorator and pop resulting option
            help_option(*help_option_names)(self)
            self._help_option = self.params.pop()  # type: ignore[assignment]

        return self._help_option

    def make_parser(self, ctx: Context) -> _OptionParser:
        """Creates the underlying option parser for this command."""
        parser = _OptionParser(ctx)
        for param in self.get_params(ctx):
            param.add_to_parser(parser, ctx)
        return parser

    def get_help(self, ctx: Context) -> str:
        """Formats the help into a string and returns it.

        Calls :meth:`format_help` internally.
        """
        formatter = ctx.make_formatter()
        self.format_help(ctx, formatter)
        return formatter.getvalue().rstrip("\n")

    def get_short_help_str(self, limit: int = 45) -> str:
        """Gets short help for the command or makes it by shortening the
        long help string.
        """
        if self.short_help:
            text = inspect.cleandoc(self.short_help)
        elif self.help:
            text = make_default_short_help(self.help, limit)
        else:
            text = ""

        if self.deprecated:
            deprecated_message = (
                f"(DEPRECATED: {self.deprecated})"
                if isinstance(self.deprecated, str)
                else "(DEPRECATED)"
            )
            text = _("{text} {deprecated_message}").format(
                text=text, deprecated_message=deprecated_message
            )

        return text.strip()

    def format_help(self, ctx: Context, formatter: HelpFormatter) -> None:
        """Writes the help into the formatter if it exists.

        This is a low-level method called by :meth:`get_help`.

        This calls the following methods:

        -   :meth:`format_usage`
        -   :meth:`format_help_text`
        -   :meth:`format_options`
        -   :meth:`format_epilog`
        """
        self.format_usage(ctx, formatter)
        self.format_help_text(ctx, formatter)
        self.format_options(ctx, formatter)
        self.format_epilog(ctx, formatter)

    def format_help_text(self, ctx: Context, formatter: HelpFormatter) -> None:
        """Writes the help text to the formatter if it exists."""
        if self.help is not None:
            # truncate the help text to the first form feed
            text = inspect.cleandoc(self.help).partition("\f")[0]
        else:
            text = ""

        if self.deprecated:
            deprecated_message = (
                f"(DEPRECATED: {self.deprecated})"
                if isinstance(self.deprecated, str)
                else "(DEPRECATED)"
            )
            text = _("{text} {deprecated_message}").format(
                text=text, deprecated_message=deprecated_message
            )

        if text:
            formatter.write_paragraph()

            with formatter.indentation():
                formatter.write_text(text)

    def format_options(self, ctx: Context, formatter: HelpFormatter) -> None:
        """Writes all the options into the formatter if they exist."""
        opts = []
        for param in self.get_params(ctx):
            rv = param.get_help_record(ctx)
            if rv is not None:
                opts.append(rv)

        if opts:
            with formatter.section(_("Options")):
                formatter.write_dl(opts)

    def format_epilog(self, ctx: Context, formatter: HelpFormatter) -> None:
        """Writes the epilog into the formatter if it exists."""
        if self.epilog:
            epilog = inspect.cleandoc(self.epilog)
            formatter.write_paragraph()

            with formatter.indentation():
                formatter.write_text(epilog)

    def make_context(
        self,
        info_name: str | None,
        args: list[str],
        parent: Context | None = None,
        **extra: t.Any,
    ) -> Context:
        """This function when given an info name and arguments will kick
        off the parsing and create a new :class:`Context`.  It does not
        invoke the actual command callback though.

        To quickly customize the context class used without overriding
        this method, set the :attr:`context_class` attribute.

        :param info_name: the info name for this invocation.  Generally this
                          is the most descriptive name for the script or
                          command.  For the toplevel script it's usually
                          the name of the script, for commands below it's
                          the name of the command.
        :param args: the arguments to parse as list of strings.
        :param parent: the parent context if available.
        :param extra: extra keyword arguments forwarded to the context
                      constructor.

        .. versionchanged:: 8.0
            Added the :attr:`context_class` attribute.
        """
        for key, value in self.context_settings.items():
            if key not in extra:
                extra[key] = value

        ctx = self.context_class(self, info_name=info_name, parent=parent, **extra)

        with ctx.scope(cleanup=False):
            self.parse_args(ctx, args)
        return ctx

    def parse_args(self, ctx: Context, args: list[str]) -> list[str]:
        if not args and self.no_args_is_help and not ctx.resilient_parsing:
            raise NoArgsIsHelpError(ctx)

        parser = self.make_parser(ctx)
        opts, args, param_order = parser.parse_args(args=args)

        for param in iter_params_for_processing(param_order, self.get_params(ctx)):
            value, args = param.handle_parse_result(ctx, opts, args)

        if args and not ctx.allow_extra_args and not ctx.resilient_parsing:
            ctx.fail(
                ngettext(
                    "Got unexpected extra argument ({args})",
                    "Got unexpected extra arguments ({args})",
                    len(args),
                ).format(args=" ".join(map(str, args)))
            )

        ctx.args = args
        ctx._opt_prefixes.update(parser._opt_prefixes)
        return args

    def invoke(self, ctx: Context) -> t.Any:
        """Given a context, this invokes the attached callback (if it exists)
        in the right way.
        """
        if self.deprecated:
            extra_message = (
                f" {self.deprecated}" if isinstance(self.deprecated, str) else ""
            )
            message = _(
                "DeprecationWarning: The command {name!r} is deprecated.{extra_message}"
            ).format(name=self.name, extra_message=extra_message)
            echo(style(message, fg="red"), err=True)

        if self.callback is not None:
            return ctx.invoke(self.callback, **ctx.params)

    def shell_complete(self, ctx: Context, incomplete: str) -> list[CompletionItem]:
        """Return a list of completions for the incomplete value. Looks
        at the names of options and chained multi-commands.

        Any command could be part of a chained multi-command, so sibling
        commands are valid at any point during command completion.

        :param ctx: Invocation context for this command.
        :param incomplete: Value being completed. May be empty.

        .. versionadded:: 8.0
        """
        from click.shell_completion import CompletionItem

        results: list[CompletionItem] = []

        if incomplete and not incomplete[0].isalnum():
            for param in self.get_params(ctx):
                if (
                    not isinstance(param, Option)
                    or param.hidden
                    or (
                        not param.multiple
                        and ctx.get_parameter_source(param.name)  # type: ignore
                        is ParameterSource.COMMANDLINE
                    )
                ):
                    continue

                results.extend(
                    CompletionItem(name, help=param.help)
                    for name in [*param.opts, *param.secondary_opts]
                    if name.startswith(incomplete)
                )

        while ctx.parent is not None:
            ctx = ctx.parent

            if isinstance(ctx.command, Group) and ctx.command.chain:
                results.extend(
                    CompletionItem(name, help=command.get_short_help_str())
                    for name, command in _complete_visible_commands(ctx, incomplete)
                    if name not in ctx._protected_args
                )

        return results

    @t.overload
    def main(
        self,
        args: cabc.Sequence[str] | None = None,
        prog_name: str | None = None,
        complete_var: str | None = None,
        standalone_mode: t.Literal[True] = True,
        **extra: t.Any,
    ) -> t.NoReturn: ...

    @t.overload
    def main(
        self,
        args: cabc.Sequence[str] | None = None,
        prog_name: str | None = None,
        complete_var: str | None = None,
        standalone_mode: bool = ...,
        **extra: t.Any,
    ) -> t.Any: ...

    def main(
        self,
        args: cabc.Sequence[str] | None = None,
        prog_name: str | None = None,
        complete_var: str | None = None,
        standalone_mode: bool = True,
        windows_expand_args: bool = True,
        **extra: t.Any,
    ) -> t.Any:
        """This is the way to invoke a script with all the bells and
        whistles as a command line application.  This will always terminate
        the application after a call.  If this is not wanted, ``SystemExit``
        needs to be caught.

        This method is also available by directly calling the instance of
        a :class:`Command`.

        :param args: the arguments that should be used for parsing.  If not
                     provided, ``sys.argv[1:]`` is used.
        :param prog_name: the program name that should be used.  By default
                          the program name is constructed by taking the file
                          name from ``sys.argv[0]``.
        :param complete_var: the environment variable that controls the
                             bash completion support.  The default is
                             ``"_<prog_name>_COMPLETE"`` with prog_name in
                             uppercase.
        :param standalone_mode: the default behavior is to invoke the script
                                in standalone mode.  Click will then
                                handle exceptions and convert them into
                                error messages and the function will never
                                return but shut down the interpreter.  If
                                this is set to `False` they will be
                                propagated to the caller and the return
                                value of this function is the return value
                                of :meth:`invoke`.
        :param windows_expand_args: Expand glob patterns, user dir, and
            env vars in command line args on Windows.
        :param extra: extra keyword arguments are forwarded to the context
                      constructor.  See :class:`Context` for more information.

        .. versionchanged:: 8.0.1
            Added the ``windows_expand_args`` parameter to allow
            disabling command line arg expansion on Windows.

        .. versionchanged:: 8.0
            When taking arguments from ``sys.argv`` on Windows, glob
            patterns, user dir, and env vars are expanded.

        .. versionchanged:: 3.0
           Added the ``standalone_mode`` parameter.
        """
        if args is None:
            args = sys.argv[1:]

            if os.name == "nt" and windows_expand_args:
                args = _expand_args(args)
        else:
            args = list(args)

        if prog_name is None:
            prog_name = _detect_program_name()

        # Process shell completion requests and exit early.
        self._main_shell_completion(extra, prog_name, complete_var)

        try:
            try:
                with self.make_context(prog_name, args, **extra) as ctx:
                    rv = self.invoke(ctx)
                    if not standalone_mode:
                        return rv
                    # it's not safe to `ctx.exit(rv)` here!
                    # note that `rv` may actually contain data like "1" which
                    # has obvious effects
                    # more subtle case: `rv=[None, None]` can come out of
                    # chained commands which all returned `None` -- so it's not
                    # even always obvious that `rv` indicates success/failure
                    # by its truthiness/falsiness
                    ctx.exit()
            except (EOFError, KeyboardInterrupt) as e:
                echo(file=sys.stderr)
                raise Abort() from e
            except ClickException as e:
                if not standalone_mode:
                    raise
                e.show()
                sys.exit(e.exit_code)
            except OSError as e:
                if e.errno == errno.EPIPE:
                    sys.stdout = t.cast(t.TextIO, PacifyFlushWrapper(sys.stdout))
                    sys.stderr = t.cast(t.TextIO, PacifyFlushWrapper(sys.stderr))
                    sys.exit(1)
                else:
                    raise
        except Exit as e:
            if standalone_mode:
                sys.exit(e.exit_code)
            else:
                # in non-standalone mode, return the exit code
                # note that this is only reached if `self.invoke` above raises
                # an Exit explicitly -- thus bypassing the check there which
                # would return its result
                # the results of non-standalone execution may therefore be
                # somewhat ambiguous: if there are codepaths which lead to
                # `ctx.exit(1)` and to `return 1`, the caller won't be able to
                # tell the difference between the two
                return e.exit_code
        except Abort:
            if not standalone_mode:
                raise
            echo(_("Aborted!"), file=sys.stderr)
            sys.exit(1)

    def _main_shell_completion(
        self,
        ctx_args: cabc.MutableMapping[str, t.Any],
        prog_name: str,
        complete_var: str | None = None,
    ) -> None:
        """Check if the shell is asking for tab completion, process
        that, then exit early. Called from :meth:`main` before the
        program is invoked.

        :param prog_name: Name of the executable in the shell.
        :param complete_var: Name of the environment variable that holds
            the completion instruction. Defaults to
            ``_{PROG_NAME}_COMPLETE``.

        .. versionchanged:: 8.2.0
            Dots (``.``) in ``prog_name`` are replaced with underscores (``_``).
        """
        if complete_var is None:
            complete_name = prog_name.replace("-", "_").replace(".", "_")
            complete_var = f"_{complete_name}_COMPLETE".upper()

        instruction = os.environ.get(complete_var)

        if not instruction:
            return

        from .shell_completion import shell_complete

        rv = shell_complete(self, ctx_args, prog_name, complete_var, instruction)
        sys.exit(rv)

    def __call__(self, *args: t.Any, **kwargs: t.Any) -> t.Any:
        """Alias for :meth:`main`."""
        return self.main(*args, **kwargs)


class _FakeSubclassCheck(type):
    def __subclasscheck__(cls, subclass: type) -> bool:
        return issubclass(subclass, cls.__bases__[0])

    def __instancecheck__(cls, instance: t.Any) -> bool:
        return isinstance(instance, cls.__bases__[0])


class _BaseCommand(Command, metaclass=_FakeSubclassCheck):
    """
    .. deprecated:: 8.2
        Will be removed in Click 9.0. Use ``Command`` instead.
    """


class Group(Command):
    """A group is a command that nests other commands (or more groups).

    :param name: The name of the group command.
    :param commands: Map names to :class:`Command` objects. Can be a list, which
        will use :attr:`Command.name` as the keys.
    :param invoke_without_command: Invoke the group's callback even if a
        subcommand is not given.
    :param no_args_is_help: If no arguments are given, show the group's help and
        exit. Defaults to the opposite of ``invoke_without_command``.
    :param subcommand_metavar: How to represent the subcommand argument in help.
        The default will represent whether ``chain`` is set or not.
    :param chain: Allow passing more than one subcommand argument. After parsing
        a command's arguments, if any arguments remain another command will be
        matched, and so on.
    :param result_callback: A function to call after the group's and
        subcommand's callbacks. The value returned by the subcommand is passed.
        If ``chain`` is enabled, the value will be a list of values returned by
        all the commands. If ``invoke_without_command`` is enabled, the value
        will be the value returned by the group's callback, or an empty list if
        ``chain`` is enabled.
    :param kwargs: Other arguments passed to :class:`Command`.

    .. versionchanged:: 8.0
        The ``commands`` argument can be a list of command objects.

    .. versionchanged:: 8.2
        Merged with and replaces the ``MultiCommand`` base class.
    """

    allow_extra_args = True
    allow_interspersed_args = False

    #: If set, this is used by the group's :meth:`command` decorator
    #: as the default :class:`Command` class. This is useful to make all
    #: subcommands use a custom command class.
    #:
    #: .. versionadded:: 8.0
    command_class: type[Command] | None = None

    #: If set, this is used by the group's :meth:`group` decorator
    #: as the default :class:`Group` class. This is useful to make all
    #: subgroups use a custom group class.
    #:
    #: If set to the special value :class:`type` (literally
    #: ``group_class = type``), this group's class will be used as the
    #: default class. This makes a custom group class continue to make
    #: custom groups.
    #:
    #: .. versionadded:: 8.0
    group_class: type[Group] | type[type] | None = None
    # Literal[type] isn't valid, so use Type[type]

    def __init__(
        self,
        name: str | None = None,
        commands: cabc.MutableMapping[str, Command]
        | cabc.Sequence[Command]
        | None = None,
        invoke_without_command: bool = False,
        no_args_is_help: bool | None = None,
        subcommand_metavar: str | None = None,
        chain: bool = False,
        result_callback: t.Callable[..., t.Any] | None = None,
        **kwargs: t.Any,
    ) -> None:
        super().__init__(name, **kwargs)

        if commands is None:
            commands = {}
        elif isinstance(commands, abc.Sequence):
            commands = {c.name: c for c in commands if c.name is not None}

        #: The registered subcommands by their exported names.
        self.commands: cabc.MutableMapping[str, Command] = commands

        if no_args_is_help is None:
            no_args_is_help = not invoke_without_command

        self.no_args_is_help = no_args_is_help
        self.invoke_without_command = invoke_without_command

        if subcommand_metavar is None:
            if chain:
                subcommand_metavar = "COMMAND1 [ARGS]... [COMMAND2 [ARGS]...]..."
            else:
                subcommand_metavar = "COMMAND [ARGS]..."

        self.subcommand_metavar = subcommand_metavar
        self.chain = chain
        # The result callback that is stored. This can be set or
        # overridden with the :func:`result_callback` decorator.
        self._result_callback = result_callback

        if self.chain:
            for param in self.params:
                if isinstance(param, Argument) and not param.required:
                    raise RuntimeError(
                        "A group in chain mode cannot have optional arguments."
                    )

    def to_info_dict(self, ctx: Context) -> dict[str, t.Any]:
        info_dict = super().to_info_dict(ctx)
        commands = {}

        for name in self.list_commands(ctx):
            command = self.get_command(ctx, name)

            if command is None:
                continue

            sub_ctx = ctx._make_sub_context(command)

            with sub_ctx.scope(cleanup=False):
                commands[name] = command.to_info_dict(sub_ctx)

        info_dict.update(commands=commands, chain=self.chain)
        return info_dict

    def add_command(self, cmd: Command, name: str | None = None) -> None:
        """Registers another :class:`Command` with this group.  If the name
        is not provided, the name of the command is used.
        """
        name = name or cmd.name
        if name is None:
            raise TypeError("Command has no name.")
        _check_nested_chain(self, name, cmd, register=True)
        self.commands[name] = cmd

    @t.overload
    def command(self, __func: t.Callable[..., t.Any]) -> Command: ...

    @t.overload
    def command(
        self, *args: t.Any, **kwargs: t.Any
    ) -> t.Callable[[t.Callable[..., t.Any]], Command]: ...

    def command(
        self, *args: t.Any, **kwargs: t.Any
    ) -> t.Callable[[t.Callable[..., t.Any]], Command] | Command:
        """A shortcut decorator for declaring and attaching a command to
        the group. This takes the same arguments as :func:`command` and
        immediately registers the created command with this group by
        calling :meth:`add_command`.

        To customize the command class used, set the
        :attr:`command_class` attribute.

        .. versionchanged:: 8.1
            This decorator can be applied without parentheses.

        .. versionchanged:: 8.0
            Added the :attr:`command_class` attribute.
        """
        from .decorators import command

        func: t.Callable[..., t.Any] | None = None

        if args and callable(args[0]):
            assert len(args) == 1 and not kwargs, (
                "Use 'command(**kwargs)(callable)' to provide arguments."
            )
            (func,) = args
            args = ()

        if self.command_class and kwargs.get("cls") is None:
            kwargs["cls"] = self.command_class

        def decorator(f: t.Callable[..., t.Any]) -> Command:
            cmd: Command = command(*args, **kwargs)(f)
            self.add_command(cmd)
            return cmd

        if func is not None:
            return decorator(func)

        return decorator

    @t.overload
    def group(self, __func: t.Callable[..., t.Any]) -> Group: ...

    @t.overload
    def group(
        self, *args: t.Any, **kwargs: t.Any
    ) -> t.Callable[[t.Callable[..., t.Any]], Group]: ...

    def group(
        self, *args: t.Any, **kwargs: t.Any
    ) -> t.Callable[[t.Callable[..., t.Any]], Group] | Group:
        """A shortcut decorator for declaring and attaching a group to
        the group. This takes the same arguments as :func:`group` and
        immediately registers the created group with this group by
        calling :meth:`add_command`.

        To customize the group class used, set the :attr:`group_class`
        attribute.

        .. versionchanged:: 8.1
            This decorator can be applied without parentheses.

        .. versionchanged:: 8.0
            Added the :attr:`group_class` attribute.
        """
        from .decorators import group

        func: t.Callable[..., t.Any] | None = None

        if args and callable(args[0]):
            assert len(args) == 1 and not kwargs, (
                "Use 'group(**kwargs)(callable)' to provide arguments."
            )
            (func,) = args
            args = ()

        if self.group_class is not None and kwargs.get("cls") is None:
            if self.group_class is type:
                kwargs["cls"] = type(self)
            else:
                kwargs["cls"] = self.group_class

        def decorator(f: t.Callable[..., t.Any]) -> Group:
            cmd: Group = group(*args, **kwargs)(f)
            self.add_command(cmd)
            return cmd

        if func is not None:
            return decorator(func)

        return decorator

    def result_callback(self, replace: bool = False) -> t.Callable[[F], F]:
        """Adds a result callback to the command.  By default if a
        result callback is already registered this will chain them but
        this can be disabled with the `replace` parameter.  The result
        callback is invoked with the return value of the subcommand
        (or the list of return values from all subcommands if chaining
        is enabled) as well as the parameters as they would be passed
        to the main callback.

        Example::

            @click.group()
            @click.option('-i', '--input', default=23)
            def cli(input):
                return 42

            @cli.result_callback()
            def process_result(result, input):
                return result + input

        :param replace: if set to `True` an already existing result
                        callback will be removed.

        .. versionchanged:: 8.0
            Renamed from ``resultcallback``.

        .. versionadded:: 3.0
        """

        def decorator(f: F) -> F:
            old_callback = self._result_callback

            if old_callback is None or replace:
                self._result_callback = f
                return f

            def function(value: t.Any, /, *args: t.Any, **kwargs: t.Any) -> t.Any:
                inner = old_callback(value, *args, **kwargs)
                return f(inner, *args, **kwargs)

            self._result_callback = rv = update_wrapper(t.cast(F, function), f)
            return rv  # type: ignore[return-value]

        return decorator

    def get_command(self, ctx: Context, cmd_name: str) -> Command | None:
        """Given a context and a command name, this returns a :class:`Command`
        object if it exists or returns ``None``.
        """
        return self.commands.get(cmd_name)

    def list_commands(self, ctx: Context) -> list[str]:
        """Returns a list of subcommand names in the order they should appear."""
        return sorted(self.commands)

    def collect_usage_pieces(self, ctx: Context) -> list[str]:
        rv = super().collect_usage_pieces(ctx)
        rv.append(self.subcommand_metavar)
        return rv

    def format_options(self, ctx: Context, formatter: HelpFormatter) -> None:
        super().format_options(ctx, formatter)
        self.format_commands(ctx, formatter)

    def format_commands(self, ctx: Context, formatter: HelpFormatter) -> None:
        """Extra format methods for multi methods that adds all the commands
        after the options.
        """
        commands = []
        for subcommand in self.list_commands(ctx):
            cmd = self.get_command(ctx, subcommand)
            # What is this, the tool lied about a command.  Ignore it
            if cmd is None:
                continue
            if cmd.hidden:
                continue

            commands.append((subcommand, cmd))

        # allow for 3 times the default spacing
        if len(commands):
            limit = formatter.width - 6 - max(len(cmd[0]) for cmd in commands)

            rows = []
            for subcommand, cmd in commands:
                help = cmd.get_short_help_str(limit)
                rows.append((subcommand, help))

            if rows:
                with formatter.section(_("Commands")):
                    formatter.write_dl(rows)

    def parse_args(self, ctx: Context, args: list[str]) -> list[str]:
        if not args and self.no_args_is_help and not ctx.resilient_parsing:
            raise NoArgsIsHelpError(ctx)

        rest = super().parse_args(ctx, args)

        if self.chain:
            ctx._protected_args = rest
            ctx.args = []
        elif rest:
            ctx._protected_args, ctx.args = rest[:1], rest[1:]

        return ctx.args

    def invoke(self, ctx: Context) -> t.Any:
        def _process_result(value: t.Any) -> t.Any:
            if self._result_callback is not None:
                value = ctx.invoke(self._result_callback, value, **ctx.params)
            return value

        if not ctx._protected_args:
            if self.invoke_without_command:
                # No subcommand was invoked, so the result callback is
                # invoked with the group return value for regular
                # groups, or an empty list for chained groups.
                with ctx:
                    rv = super().invoke(ctx)
                    return _process_result([] if self.chain else rv)
            ctx.fail(_("Missing command."))

        # Fetch args back out
        args = [*ctx._protected_args, *ctx.args]
        ctx.args = []
        ctx._protected_args = []

        # If we're not in chain mode, we only allow the invocation of a
        # single command but we also inform the current context about the
        # name of the command to invoke.
        if not self.chain:
            # Make sure the context is entered so we do not clean up
            # resources until the result processor has worked.
            with ctx:
                cmd_name, cmd, args = self.resolve_command(ctx, args)
                assert cmd is not None
                ctx.invoked_subcommand = cmd_name
                super().invoke(ctx)
                sub_ctx = cmd.make_context(cmd_name, args, parent=ctx)
                with sub_ctx:
                    return _process_result(sub_ctx.command.invoke(sub_ctx))

        # In chain mode we create the contexts step by step, but after the
        # base command has been invoked.  Because at that point we do not
        # know the subcommands yet, the invoked subcommand attribute is
        # set to ``*`` to inform the command that subcommands are executed
        # but nothing else.
        with ctx:
            ctx.invoked_subcommand = "*" if args else None
            super().invoke(ctx)

            # Otherwise we make every single context and invoke them in a
            # chain.  In that case the return value to the result processor
            # is the list of all invoked subcommand's results.
            contexts = []
            while args:
                cmd_name, cmd, args = self.resolve_command(ctx, args)
                assert cmd is not None
                sub_ctx = cmd.make_context(
                    cmd_name,
                    args,
                    parent=ctx,
                    allow_extra_args=True,
                    allow_interspersed_args=False,
                )
                contexts.append(sub_ctx)
                args, sub_ctx.args = sub_ctx.args, []

            rv = []
            for sub_ctx in contexts:
                with sub_ctx:
                    rv.append(sub_ctx.command.invoke(sub_ctx))
            return _process_result(rv)

    def resolve_command(
        self, ctx: Context, args: list[str]
    ) -> tuple[str | None, Command | None, list[str]]:
        cmd_name = make_str(args[0])
        original_cmd_name = cmd_name

        # Get the command
        cmd = self.get_command(ctx, cmd_name)

        # If we can't find the command but there is a normalization
        # function available, we try with that one.
        if cmd is None and ctx.token_normalize_func is not None:
            cmd_name = ctx.token_normalize_func(cmd_name)
            cmd = self.get_command(ctx, cmd_name)

        # If we don't find the command we want to show an error message
        # to the user that it was not provided.  However, there is
        # something else we should do: if the first argument looks like
        # an option we want to kick off parsing again for arguments to
        # resolve things like --help which now should go to the main
        # place.
        if cmd is None and not ctx.resilient_parsing:
            if _split_opt(cmd_name)[0]:
                self.parse_args(ctx, args)
            ctx.fail(_("No such command {name!r}.").format(name=original_cmd_name))
        return cmd_name if cmd else None, cmd, args[1:]

    def shell_complete(self, ctx: Context, incomplete: str) -> list[CompletionItem]:
        """Return a list of completions for the incomplete value. Looks
        at the names of options, subcommands, and chained
        multi-commands.

        :param ctx: Invocation context for this command.
        :param incomplete: Value being completed. May be empty.

        .. versionadded:: 8.0
        """
        from click.shell_completion import CompletionItem

        results = [
            CompletionItem(name, help=command.get_short_help_str())
            for name, command in _complete_visible_commands(ctx, incomplete)
        ]
        results.extend(super().shell_complete(ctx, incomplete))
        return results


class _MultiCommand(Group, metaclass=_FakeSubclassCheck):
    """
    .. deprecated:: 8.2
        Will be removed in Click 9.0. Use ``Group`` instead.
    """


class CommandCollection(Group):
    """A :class:`Group` that looks up subcommands on other groups. If a command
    is not found on this group, each registered source is checked in order.
    Parameters on a source are not added to this group, and a source's callback
    is not invoked when invoking its commands. In other words, this "flattens"
    commands in many groups into this one group.

    :param name: The name of the group command.
    :param sources: A list of :class:`Group` objects to look up commands from.
    :param kwargs: Other arguments passed to :class:`Group`.

    .. versionchanged:: 8.2
        This is a subclass of ``Group``. Commands are looked up first on this
        group, then each of its sources.
    """

    def __init__(
        self,
        name: str | None = None,
        sources: list[Group] | None = None,
        **kwargs: t.Any,
    ) -> None:
        super().__init__(name, **kwargs)
        #: The list of registered groups.
        self.sources: list[Group] = sources or []

    def add_source(self, group: Group) -> None:
        """Add a group as a source of commands."""
        self.sources.append(group)

    def get_command(self, ctx: Context, cmd_name: str) -> Command | None:
        rv = super().get_command(ctx, cmd_name)

        if rv is not None:
            return rv

        for source in self.sources:
            rv = source.get_command(ctx, cmd_name)

            if rv is not None:
                if self.chain:
                    _check_nested_chain(self, cmd_name, rv)

                return rv

        return None

    def list_commands(self, ctx: Context) -> list[str]:
        rv: set[str] = set(super().list_commands(ctx))

        for source in self.sources:
            rv.update(source.list_commands(ctx))

        return sorted(rv)


def _check_iter(value: t.Any) -> cabc.Iterator[t.Any]:
    """Check if the value is iterable but not a string. Raises a type
    error, or return an iterator over the value.
    """
    if isinstance(value, str):
        raise TypeError

    return iter(value)


class Parameter:
    r"""A parameter to a command comes in two versions: they are either
    :class:`Option`\s or :class:`Argument`\s.  Other subclasses are currently
    not supported by design as some of the internals for parsing are
    intentionally not finalized.

    Some settings are supported by both options and arguments.

    :param param_decls: the parameter declarations for this option or
                        argument.  This is a list of flags or argument
                        names.
    :param type: the type that should be used.  Either a :class:`ParamType`
                 or a Python type.  The latter is converted into the former
                 automatically if supported.
    :param required: controls if this is optional or not.
    :param default: the default value if omitted.  This can also be a callable,
                    in which case it's invoked when the default is needed
                    without any arguments.
    :param callback: A function to further process or validate the value
        after type conversion. It is called as ``f(ctx, param, value)``
        and must return the value. It is called for all sources,
        including prompts.
    :param nargs: the number of arguments to match.  If not ``1`` the return
                  value is a tuple instead of single value.  The default for
                  nargs is ``1`` (except if the type is a tuple, then it's
                  the arity of the tuple). If ``nargs=-1``, all remaining
                  parameters are collected.
    :param metavar: how the value is represented in the help page.
    :param expose_value: if this is `True` then the value is passed onwards
                         to the command callback and stored on the context,
                         otherwise it's skipped.
    :param is_eager: eager values are processed before non eager ones.  This
                     should not be set for arguments or it will inverse the
                     order of processing.
    :param envvar: a string or list of strings that are environment variables
                   that should be checked.
    :param shell_complete: A function that returns custom shell
        completions. Used instead of the param's type completion if
        given. Takes ``ctx, param, incomplete`` and must return a list
        of :class:`~click.shell_completion.CompletionItem` or a list of
        strings.
    :param deprecated: If ``True`` or non-empty string, issues a message
                        indicating that the argument is deprecated and highlights
                        its deprecation in --help. The message can be customized
                        by using a string as the value. A deprecated parameter
                        cannot be required, a ValueError will be raised otherwise.

    .. versionchanged:: 8.2.0
        Introduction of ``deprecated``.

    .. versionchanged:: 8.2
        Adding duplicate parameter names to a :class:`~click.core.Command` will
        result in a ``UserWarning`` being shown.

    .. versionchanged:: 8.2
        Adding duplicate parameter names to a :class:`~click.core.Command` will
        result in a ``UserWarning`` being shown.

    .. versionchanged:: 8.0
        ``process_value`` validates required parameters and bounded
        ``nargs``, and invokes the parameter callback before returning
        the value. This allows the callback to validate prompts.
        ``full_process_value`` is removed.

    .. versionchanged:: 8.0
        ``autocompletion`` is renamed to ``shell_complete`` and has new
        semantics described above. The old name is deprecated and will
        be removed in 8.1, until then it will be wrapped to match the
        new requirements.

    .. versionchanged:: 8.0
        For ``multiple=True, nargs>1``, the default must be a list of
        tuples.

    .. versionchanged:: 8.0
        Setting a default is no longer required for ``nargs>1``, it will
        default to ``None``. ``multiple=True`` or ``nargs=-1`` will
        default to ``()``.

    .. versionchanged:: 7.1
        Empty environment variables are ignored rather than taking the
        empty string value. This makes it possible for scripts to clear
        variables if they can't unset them.

    .. versionchanged:: 2.0
        Changed signature for parameter callback to also be passed the
        parameter. The old callback format will still work, but it will
        raise a warning to give you a chance to migrate the code easier.
    """

    param_type_name = "parameter"

    def __init__(
        self,
        param_decls: cabc.Sequence[str] | None = None,
        type: types.ParamType | t.Any | None = None,
        required: bool = False,
        default: t.Any | t.Callable[[], t.Any] | None = None,
        callback: t.Callable[[Context, Parameter, t.Any], t.Any] | None = None,
        nargs: int | None = None,
        multiple: bool = False,
        metavar: str | None = None,
        expose_value: bool = True,
        is_eager: bool = False,
        envvar: str | cabc.Sequence[str] | None = None,
        shell_complete: t.Callable[
            [Context, Parameter, str], list[CompletionItem] | list[str]
        ]
        | None = None,
        deprecated: bool | str = False,
    ) -> None:
        self.name: str | None
        self.opts: list[str]
        self.secondary_opts: list[str]
        self.name, self.opts, self.secondary_opts = self._parse_decls(
            param_decls or (), expose_value
        )
        self.type: types.ParamType = types.convert_type(type, default)

        # Default nargs to what the type tells us if we have that
        # information available.
        if nargs is None:
            if self.type.is_composite:
                nargs = self.type.arity
            else:
                nargs = 1

        self.required = required
        self.callback = callback
        self.nargs = nargs
        self.multiple = multiple
        self.expose_value = expose_value
        self.default = default
        self.is_eager = is_eager
        self.metavar = metavar
        self.envvar = envvar
        self._custom_shell_complete = shell_complete
        self.deprecated = deprecated

        if __debug__:
            if self.type.is_composite and nargs != self.type.arity:
                raise ValueError(
                    f"'nargs' must be {self.type.arity} (or None) for"
                    f" type {self.type!r}, but it was {nargs}."
                )

            # Skip no default or callable default.
            check_default = default if not callable(default) else None

            if check_default is not None:
                if multiple:
                    try:
                        # Only check the first value against nargs.
                        check_default = next(_check_iter(check_default), None)
                    except TypeError:
                        raise ValueError(
                            "'default' must be a list when 'multiple' is true."
                        ) from None

                # Can be None for multiple with empty default.
                if nargs != 1 and check_default is not None:
                    try:
                        _check_iter(check_default)
                    except TypeError:
                        if multiple:
                            message = (
                                "'default' must be a list of lists when 'multiple' is"
                                " true and 'nargs' != 1."
                            )
                        else:
                            message = "'default' must be a list when 'nargs' != 1."

                        raise ValueError(message) from None

                    if nargs > 1 and len(check_default) != nargs:
                        subject = "item length" if multiple else "length"
                        raise ValueError(
                            f"'default' {subject} must match nargs={nargs}."
                        )

            if required and deprecated:
                raise ValueError(
                    f"The {self.param_type_name} '{self.human_readable_name}' "
                    "is deprecated and still required. A deprecated "
                    f"{self.param_type_name} cannot be required."
                )

    def to_info_dict(self) -> dict[str, t.Any]:
        """Gather information that could be useful for a tool generating
        user-facing documentation.

        Use :meth:`click.Context.to_info_dict` to traverse the entire
        CLI structure.

        .. versionadded:: 8.0
        """
        return {
            "name": self.name,
            "param_type_name": self.param_type_name,
            "opts": self.opts,
            "secondary_opts": self.secondary_opts,
            "type": self.type.to_info_dict(),
            "required": self.required,
            "nargs": self.nargs,
            "multiple": self.multiple,
            "default": self.default,
            "envvar": self.envvar,
        }

    def __repr__(self) -> str:
        return f"<{self.__class__.__name__} {self.name}>"

    def _parse_decls(
        self, decls: cabc.Sequence[str], expose_value: bool
    ) -> tuple[str | None, list[str], list[str]]:
        raise NotImplementedError()

    @property
    def human_readable_name(self) -> str:
        """Returns the human readable name of this parameter.  This is the
        same as the name for options, but the metavar for arguments.
        """
        return self.name  # type: ignore

    def make_metavar(self, ctx: Context) -> str:
        if self.metavar is not None:
            return self.metavar

        metavar = self.type.get_metavar(param=self, ctx=ctx)

        if metavar is None:
            metavar = self.type.name.upper()

        if self.nargs != 1:
            metavar += "..."

        return metavar

    @t.overload
    def get_default(
        self, ctx: Context, call: t.Literal[True] = True
    ) -> t.Any | None: ...

    @t.overload
    def get_default(
        self, ctx: Context, call: bool = ...
    ) -> t.Any | t.Callable[[], t.Any] | None: ...

    def get_default(
        self, ctx: Context, call: bool = True
    ) -> t.Any | t.Callable[[], t.Any] | None:
        """Get the default for the parameter. Tries
        :meth:`Context.lookup_default` first, then the local default.

        :param ctx: Current context.
        :param call: If the default is a callable, call it. Disable to
            return the callable instead.

        .. versionchanged:: 8.0.2
            Type casting is no longer performed when getting a default.

        .. versionchanged:: 8.0.1
            Type casting can fail in resilient parsing mode. Invalid
            defaults will not prevent showing help text.

        .. versionchanged:: 8.0
            Looks at ``ctx.default_map`` first.

        .. versionchanged:: 8.0
            Added the ``call`` parameter.
        """
        value = ctx.lookup_default(self.name, call=False)  # type: ignore

        if value is None:
            value = self.default

        if call and callable(value):
            value = value()

        return value

    def add_to_parser(self, parser: _OptionParser, ctx: Context) -> None:
        raise NotImplementedError()

    def consume_value(
        self, ctx: Context, opts: cabc.Mapping[str, t.Any]
    ) -> tuple[t.Any, ParameterSource]:
        value = opts.get(self.name)  # type: ignore
        source = ParameterSource.COMMANDLINE

        if value is None:
            value = self.value_from_envvar(ctx)
            source = ParameterSource.ENVIRONMENT

        if value is None:
            value = ctx.lookup_default(self.name)  # type: ignore
            source = ParameterSource.DEFAULT_MAP

        if value is None:
            value = self.get_default(ctx)
            source = ParameterSource.DEFAULT

        return value, source

    def type_cast_value(self, ctx: Context, value: t.Any) -> t.Any:
        """Convert and validate a value against the option's
        :attr:`type`, :attr:`multiple`, and :attr:`nargs`.
        """
        if value is None:
            return () if self.multiple or self.nargs == -1 else None

        def check_iter(value: t.Any) -> cabc.Iterator[t.Any]:
            try:
                return _check_iter(value)
            except TypeError:
                # This should only happen when passing in args manually,
                # the parser should construct an iterable when parsing
                # the command line.
                raise BadParameter(
                    _("Value must be an iterable."), ctx=ctx, param=self
                ) from None

        if self.nargs == 1 or self.type.is_composite:

            def convert(value: t.Any) -> t.Any:
                return self.type(value, param=self, ctx=ctx)

        elif self.nargs == -1:

            def convert(value: t.Any) -> t.Any:  # tuple[t.Any, ...]
                return tuple(self.type(x, self, ctx) for x in check_iter(value))

        else:  # nargs > 1

            def convert(value: t.Any) -> t.Any:  # tuple[t.Any, ...]
                value = tuple(check_iter(value))

                if len(value) != self.nargs:
                    raise BadParameter(
                        ngettext(
                            "Takes {nargs} values but 1 was given.",
                            "Takes {nargs} values but {len} were given.",
                            len(value),
                        ).format(nargs=self.nargs, len=len(value)),
                        ctx=ctx,
                        param=self,
                    )

                return tuple(self.type(x, self, ctx) for x in value)

        if self.multiple:
            return tuple(convert(x) for x in check_iter(value))

        return convert(value)

    def value_is_missing(self, value: t.Any) -> bool:
        if value is None:
            return True

        if (self.nargs != 1 or self.multiple) and value == ():
            return True

        return False

    def process_value(self, ctx: Context, value: t.Any) -> t.Any:
        value = self.type_cast_value(ctx, value)

        if self.required and self.value_is_missing(value):
            raise MissingParameter(ctx=ctx, param=self)

        if self.callback is not None:
            value = self.callback(ctx, self, value)

        return value

    def resolve_envvar_value(self, ctx: Context) -> str | None:
        if self.envvar is None:
            return None

        if isinstance(self.envvar, str):
            rv = os.environ.get(self.envvar)

            if rv:
                return rv
        else:
            for envvar in self.envvar:
                rv = os.environ.get(envvar)

                if rv:
                    return rv

        return None

    def value_from_envvar(self, ctx: Context) -> t.Any | None:
        rv: t.Any | None = self.resolve_envvar_value(ctx)

        if rv is not None and self.nargs != 1:
            rv = self.type.split_envvar_value(rv)

        return rv

    def handle_parse_result(
        self, ctx: Context, opts: cabc.Mapping[str, t.Any], args: list[str]
    ) -> tuple[t.Any, list[str]]:
        with augment_usage_errors(ctx, param=self):
            value, source = self.consume_value(ctx, opts)

            if (
                self.deprecated
                and value is not None
                and source
                not in (
                    ParameterSource.DEFAULT,
                    ParameterSource.DEFAULT_MAP,
                )
            ):
                extra_message = (
                    f" {self.deprecated}" if isinstance(self.deprecated, str) else ""
                )
                message = _(
                    "DeprecationWarning: The {param_type} {name!r} is deprecated."
                    "{extra_message}"
                ).format(
                    param_type=self.param_type_name,
                    name=self.human_readable_name,
                    extra_message=extra_message,
                )
                echo(style(message, fg="red"), err=True)

            ctx.set_parameter_source(self.name, source)  # type: ignore

            try:
                value = self.process_value(ctx, value)
            except Exception:
                if not ctx.resilient_parsing:
                    raise

                value = None

        if self.expose_value:
            ctx.params[self.name] = value  # type: ignore

        return value, args

    def get_help_record(self, ctx: Context) -> tuple[str, str] | None:
        pass

    def get_usage_pieces(self, ctx: Context) -> list[str]:
        return []

    def get_error_hint(self, ctx: Context) -> str:
        """Get a stringified version of the param for use in error messages to
        indicate which param caused the error.
        """
        hint_list = self.opts or [self.human_readable_name]
        return " / ".join(f"'{x}'" for x in hint_list)

    def shell_complete(self, ctx: Context, incomplete: str) -> list[CompletionItem]:
        """Return a list of completions for the incomplete value. If a
        ``shell_complete`` function was given during init, it is used.
        Otherwise, the :attr:`type`
        :meth:`~click.types.ParamType.shell_complete` function is used.

        :param ctx: Invocation context for this command.
        :param incomplete: Value being completed. May be empty.

        .. versionadded:: 8.0
        """
        if self._custom_shell_complete is not None:
            results = self._custom_shell_complete(ctx, self, incomplete)

            if results and isinstance(results[0], str):
                from click.shell_completion import CompletionItem

                results = [CompletionItem(c) for c in results]

            return t.cast("list[CompletionItem]", results)

        return self.type.shell_complete(ctx, self, incomplete)


class Option(Parameter):
    """Options are usually optional values on the command line and
    have some extra features that arguments don't have.

    All other parameters are passed onwards to the parameter constructor.

    :param show_default: Show the default value for this option in its
        help text. Values are not shown by default, unless
        :attr:`Context.show_default` is ``True``. If this value is a
        string, it shows that string in parentheses instead of the
        actual value. This is particularly useful for dynamic options.
        For single option boolean flags, the default remains hidden if
        its value is ``False``.
    :param show_envvar: Controls if an environment variable should be
        shown on the help page and error messages.
        Normally, environment variables are not shown.
    :param prompt: If set to ``True`` or a non empty string then the
        user will be prompted for input. If set to ``True`` the prompt
        will be the option name capitalized. A deprecated option cannot be
        prompted.
    :param confirmation_prompt: Prompt a second time to confirm the
        value if it was prompted for. Can be set to a string instead of
        ``True`` to customize the message.
    :param prompt_required: If set to ``False``, the user will be
        prompted for input only when the option was specified as a flag
        without a value.
    :param hide_input: If this is ``True`` then the input on the prompt
        will be hidden from the user. This is useful for password input.
    :param is_flag: forces this option to act as a flag.  The default is
                    auto detection.
    :param flag_value: which value should be used for this flag if it's
                       enabled.  This is set to a boolean automatically if
                       the option string contains a slash to mark two options.
    :param multiple: if this is set to `True` then the argument is accepted
                     multiple times and recorded.  This is similar to ``nargs``
                     in how it works but supports arbitrary number of
                     arguments.
    :param count: this flag makes an option increment an integer.
    :param allow_from_autoenv: if this is enabled then the value of this
                               parameter will be pulled from an environment
                               variable in case a prefix is defined on the
                               context.
    :param help: the help string.
    :param hidden: hide this option from help outputs.
    :param attrs: Other command arguments described in :class:`Parameter`.

    .. versionchanged:: 8.2
        ``envvar`` used with ``flag_value`` will always use the ``flag_value``,
        previously it would use the value of the environment variable.

    .. versionchanged:: 8.1
        Help text indentation is cleaned here instead of only in the
        ``@option`` decorator.

    .. versionchanged:: 8.1
        The ``show_default`` parameter overrides
        ``Context.show_default``.

    .. versionchanged:: 8.1
        The default of a single option boolean flag is not shown if the
        default value is ``False``.

    .. versionchanged:: 8.0.1
        ``type`` is detected from ``flag_value`` if given.
    """

    param_type_name = "option"

    def __init__(
        self,
        param_decls: cabc.Sequence[str] | None = None,
        show_default: bool | str | None = None,
        prompt: bool | str = False,
        confirmation_prompt: bool | str = False,
        prompt_required: bool = True,
        hide_input: bool = False,
        is_flag: bool | None = None,
        flag_value: t.Any | None = None,
        multiple: bool = False,
        count: bool = False,
        allow_from_autoenv: bool = True,
        type: types.ParamType | t.Any | None = None,
        help: str | None = None,
        hidden: bool = False,
        show_choices: bool = True,
        show_envvar: bool = False,
        deprecated: bool | str = False,
        **attrs: t.Any,
    ) -> None:
        if help:
            help = inspect.cleandoc(help)

        default_is_missing = "default" not in attrs
        super().__init__(
            param_decls, type=type, multiple=multiple, deprecated=deprecated, **attrs
        )

        if prompt is True:
            if self.name is None:
                raise TypeError("'name' is required with 'prompt=True'.")

            prompt_text: str | None = self.name.replace("_", " ").capitalize()
        elif prompt is False:
            prompt_text = None
        else:
            prompt_text = prompt

        if deprecated:
            deprecated_message = (
                f"(DEPRECATED: {deprecated})"
                if isinstance(deprecated, str)
                else "(DEPRECATED)"
            )
            help = help + deprecated_message if help is not None else deprecated_message

        self.prompt = prompt_text
        self.confirmation_prompt = confirmation_prompt
        self.prompt_required = prompt_required
        self.hide_input = hide_input
        self.hidden = hidden

        # If prompt is enabled but not required, then the option can be
        # used as a flag to indicate using prompt or flag_value.
        self._flag_needs_value = self.prompt is not None and not self.prompt_required

        if is_flag is None:
            if flag_value is not None:
                # Implicitly a flag because flag_value was set.
                is_flag = True
            elif self._flag_needs_value:
                # Not a flag, but when used as a flag it shows a prompt.
                is_flag = False
            else:
                # Implicitly a flag because flag options were given.
                is_flag = bool(self.secondary_opts)
        elif is_flag is False and not self._flag_needs_value:
            # Not a flag, and prompt is not enabled, can be used as a
            # flag if flag_value is set.
            self._flag_needs_value = flag_value is not None

        self.default: t.Any | t.Callable[[], t.Any]

        if is_flag and default_is_missing and not self.required:
            if multiple:
                self.default = ()
            else:
                self.default = False

        if is_flag and flag_value is None:
            flag_value = not self.default

        self.type: types.ParamType
        if is_flag and type is None:
            # Re-guess the type from the flag value instead of the
            # default.
            self.type = types.convert_type(None, flag_value)

        self.is_flag: bool = is_flag
        self.is_bool_flag: bool = is_flag and isinstance(self.type, types.BoolParamType)
        self.flag_value: t.Any = flag_value

        # Counting
        self.count = count
        if count:
            if type is None:
                self.type = types.IntRange(min=0)
            if default_is_missing:
                self.default = 0

        self.allow_from_autoenv = allow_from_autoenv
        self.help = help
        self.show_default = show_default
        self.show_choices = show_choices
        self.show_envvar = show_envvar

        if __debug__:
            if deprecated and prompt:
                raise ValueError("`deprecated` options cannot use `prompt`.")

            if self.nargs == -1:
                raise TypeError("nargs=-1 is not supported for options.")

            if self.prompt and self.is_flag and not self.is_bool_flag:
                raise TypeError("'prompt' is not valid for non-boolean flag.")

            if not self.is_bool_flag and self.secondary_opts:
                raise TypeError("Secondary flag is not valid for non-boolean flag.")

            if self.is_bool_flag and self.hide_input and self.prompt is not None:
                raise TypeError(
                    "'prompt' with 'hide_input' is not valid for boolean flag."
                )

            if self.count:
                if self.multiple:
                    raise TypeError("'count' is not valid with 'multiple'.")

                if self.is_flag:
                    raise TypeError("'count' is not valid with 'is_flag'.")

    def to_info_dict(self) -> dict[str, t.Any]:
        info_dict = super().to_info_dict()
        info_dict.update(
            help=self.help,
            prompt=self.prompt,
            is_flag=self.is_flag,
            flag_value=self.flag_value,
            count=self.count,
            hidden=self.hidden,
        )
        return info_dict

    def get_error_hint(self, ctx: Context) -> str:
        result = super().get_error_hint(ctx)
        if self.show_envvar:
            result += f" (env var: '{self.envvar}')"
        return result

    def _parse_decls(
        self, decls: cabc.Sequence[str], expose_value: bool
    ) -> tuple[str | None, list[str], list[str]]:
        opts = []
        secondary_opts = []
        name = None
        possible_names = []

        for decl in decls:
            if decl.isidentifier():
                if name is not None:
                    raise TypeError(f"Name '{name}' defined twice")
                name = decl
            else:
                split_char = ";" if decl[:1] == "/" else "/"
                if split_char in decl:
                    first, second = decl.split(split_char, 1)
                    first = first.rstrip()
                    if first:
                        possible_names.append(_split_opt(first))
                        opts.append(first)
                    second = second.lstrip()
                    if second:
                        secondary_opts.append(second.lstrip())
                    if first == second:
                        raise ValueError(
                            f"Boolean option {decl!r} cannot use the"
                            " same flag for true/false."
                        )
                else:
                    possible_names.append(_split_opt(decl))
                    opts.append(decl)

        if name is None and possible_names:
            possible_names.sort(key=lambda x: -len(x[0]))  # group long options first
            name = possible_names[0][1].replace("-", "_").lower()
            if not name.isidentifier():
                name = None

        if name is None:
            if not expose_value:
                return None, opts, secondary_opts
            raise TypeError(
                f"Could not determine name for option with declarations {decls!r}"
            )

        if not opts and not secondary_opts:
            raise TypeError(
                f"No options defined but a name was passed ({name})."
                " Did you mean to declare an argument instead? Did"
                f" you mean to pass '--{name}'?"
            )

        return name, opts, secondary_opts

    def add_to_parser(self, parser: _OptionParser, ctx: Context) -> None:
        if self.multiple:
            action = "append"
        elif self.count:
            action = "count"
        else:
            action = "store"

        if self.is_flag:
            action = f"{action}_const"

            if self.is_bool_flag and self.secondary_opts:
                parser.add_option(
                    obj=self, opts=self.opts, dest=self.name, action=action, const=True
                )
                parser.add_option(
                    obj=self,
                    opts=self.secondary_opts,
                    dest=self.name,
                    action=action,
                    const=False,
                )
            else:
                parser.add_option(
                    obj=self,
                    opts=self.opts,
                    dest=self.name,
                    action=action,
                    const=self.flag_value,
                )
        else:
            parser.add_option(
                obj=self,
                opts=self.opts,
                dest=self.name,
                action=action,
                nargs=self.nargs,
            )

    def get_help_record(self, ctx: Context) -> tuple[str, str] | None:
        if self.hidden:
            return None

        any_prefix_is_slash = False

        def _write_opts(opts: cabc.Sequence[str]) -> str:
            nonlocal any_prefix_is_slash

            rv, any_slashes = join_options(opts)

            if any_slashes:
                any_prefix_is_slash = True

            if not self.is_flag and not self.count:
                rv += f" {self.make_metavar(ctx=ctx)}"

            return rv

        rv = [_write_opts(self.opts)]

        if self.secondary_opts:
            rv.append(_write_opts(self.secondary_opts))

        help = self.help or ""

        extra = self.get_help_extra(ctx)
        extra_items = []
        if "envvars" in extra:
            extra_items.append(
                _("env var: {var}").format(var=", ".join(extra["envvars"]))
            )
        if "default" in extra:
            extra_items.append(_("default: {default}").format(default=extra["default"]))
        if "range" in extra:
            extra_items.append(extra["range"])
        if "required" in extra:
            extra_items.append(_(extra["required"]))

        if extra_items:
            extra_str = "; ".join(extra_items)
            help = f"{help}  [{extra_str}]" if help else f"[{extra_str}]"

        return ("; " if any_prefix_is_slash else " / ").join(rv), help

    def get_help_extra(self, ctx: Context) -> types.OptionHelpExtra:
        extra: types.OptionHelpExtra = {}

        if self.show_envvar:
            envvar = self.envvar

            if envvar is None:
                if (
                    self.allow_from_autoenv
                    and ctx.auto_envvar_prefix is not None
                    and self.name is not None
                ):
                    envvar = f"{ctx.auto_envvar_prefix}_{self.name.upper()}"

            if envvar is not None:
                if isinstance(envvar, str):
                    extra["envvars"] = (envvar,)
                else:
                    extra["envvars"] = tuple(str(d) for d in envvar)

        # Temporarily enable resilient parsing to avoid type casting
        # failing for the default. Might be possible to extend this to
        # help formatting in general.
        resilient = ctx.resilient_parsing
        ctx.resilient_parsing = True

        try:
            default_value = self.get_default(ctx, call=False)
        finally:
            ctx.resilient_parsing = resilient

        show_default = False
        show_default_is_str = False

        if self.show_default is not None:
            if isinstance(self.show_default, str):
                show_default_is_str = show_default = True
            else:
                show_default = self.show_default
        elif ctx.show_default is not None:
            show_default = ctx.show_default

        if show_default_is_str or (show_default and (default_value is not None)):
            if show_default_is_str:
                default_string = f"({self.show_default})"
            elif isinstance(default_value, (list, tuple)):
                default_string = ", ".join(str(d) for d in default_value)
            elif inspect.isfunction(default_value):
                default_string = _("(dynamic)")
            elif self.is_bool_flag and self.secondary_opts:
                # For boolean flags that have distinct True/False opts,
                # use the opt without prefix instead of the value.
                default_string = _split_opt(
                    (self.opts if default_value else self.secondary_opts)[0]
                )[1]
            elif self.is_bool_flag and not self.secondary_opts and not default_value:
                default_string = ""
            elif default_value == "":
                default_string = '""'
            else:
                default_string = str(default_value)

            if default_string:
                extra["default"] = default_string

        if (
            isinstance(self.type, types._NumberRangeBase)
            # skip count with default range type
            and not (self.count and self.type.min == 0 and self.type.max is None)
        ):
            range_str = self.type._describe_range()

            if range_str:
                extra["range"] = range_str

        if self.required:
            extra["required"] = "required"

        return extra

    @t.overload
    def get_default(
        self, ctx: Context, call: t.Literal[True] = True
    ) -> t.Any | None: ...

    @t.overload
    def get_default(
        self, ctx: Context, call: bool = ...
    ) -> t.Any | t.Callable[[], t.Any] | None: ...

    def get_default(
        self, ctx: Context, call: bool = True
    ) -> t.Any | t.Callable[[], t.Any] | None:
        # If we're a non boolean flag our default is more complex because
        # we need to look at all flags in the same group to figure out
        # if we're the default one in which case we return the flag
        # value as default.
        if self.is_flag and not self.is_bool_flag:
            for param in ctx.command.params:
                if param.name == self.name and param.default:
                    return t.cast(Option, param).flag_value

            return None

        return super().get_default(ctx, call=call)

    def prompt_for_value(self, ctx: Context) -> t.Any:
        """This is an alternative flow that can be activated in the full
        value processing if a value does not exist.  It will prompt the
        user until a valid value exists and then returns the processed
        value as result.
        """
        assert self.prompt is not None

        # Calculate the default before prompting anything to be stable.
        default = self.get_default(ctx)

        # If this is a prompt for a flag we need to handle this
        # differently.
        if self.is_bool_flag:
            return confirm(self.prompt, default)

        # If show_default is set to True/False, provide this to `prompt` as well. For
        # non-bool values of `show_default`, we use `prompt`'s default behavior
        prompt_kwargs: t.Any = {}
        if isinstance(self.show_default, bool):
            prompt_kwargs["show_default"] = self.show_default

        return prompt(
            self.prompt,
            default=default,
            type=self.type,
            hide_input=self.hide_input,
            show_choices=self.show_choices,
            confirmation_prompt=self.confirmation_prompt,
            value_proc=lambda x: self.process_value(ctx, x),
            **prompt_kwargs,
        )

    def resolve_envvar_value(self, ctx: Context) -> str | None:
        rv = super().resolve_envvar_value(ctx)

        if rv is not None:
            if self.is_flag and self.flag_value:
                return str(self.flag_value)
            return rv

        if (
            self.allow_from_autoenv
            and ctx.auto_envvar_prefix is not None
            and self.name is not None
        ):
            envvar = f"{ctx.auto_envvar_prefix}_{self.name.upper()}"
            rv = os.environ.get(envvar)

            if rv:
                return rv

        return None

    def value_from_envvar(self, ctx: Context) -> t.Any | None:
        rv: t.Any | None = self.resolve_envvar_value(ctx)

        if rv is None:
            return None

        value_depth = (self.nargs != 1) + bool(self.multiple)

        if value_depth > 0:
            rv = self.type.split_envvar_value(rv)

            if self.multiple and self.nargs != 1:
                rv = batch(rv, self.nargs)

        return rv

    def consume_value(
        self, ctx: Context, opts: cabc.Mapping[str, Parameter]
    ) -> tuple[t.Any, ParameterSource]:
        value, source = super().consume_value(ctx, opts)

        # The parser will emit a sentinel value if the option can be
        # given as a flag without a value. This is different from None
        # to distinguish from the flag not being given at all.
        if value is _flag_needs_value:
            if self.prompt is not None and not ctx.resilient_parsing:
                value = self.prompt_for_value(ctx)
                source = ParameterSource.PROMPT
            else:
                value = self.flag_value
                source = ParameterSource.COMMANDLINE

        elif (
            self.multiple
            and value is not None
            and any(v is _flag_needs_value for v in value)
        ):
            value = [self.flag_value if v is _flag_needs_value else v for v in value]
            source = ParameterSource.COMMANDLINE

        # The value wasn't set, or used the param's default, prompt if
        # prompting is enabled.
        elif (
            source in {None, ParameterSource.DEFAULT}
            and self.prompt is not None
            and (self.required or self.prompt_required)
            and not ctx.resilient_parsing
        ):
            value = self.prompt_for_value(ctx)
            source = ParameterSource.PROMPT

        return value, source


class Argument(Parameter):
    """Arguments are positional parameters to a command.  They generally
    provide fewer features than options but can have infinite ``nargs``
    and are required by default.

    All parameters are passed onwards to the constructor of :class:`Parameter`.
    """

    param_type_name = "argument"

    def __init__(
        self,
        param_decls: cabc.Sequence[str],
        required: bool | None = None,
        **attrs: t.Any,
    ) -> None:
        if required is None:
            if attrs.get("default") is not None:
                required = False
            else:
                required = attrs.get("nargs", 1) > 0

        if "multiple" in attrs:
            raise TypeError("__init__() got an unexpected keyword argument 'multiple'.")

        super().__init__(param_decls, required=required, **attrs)

        if __debug__:
            if self.default is not None and self.nargs == -1:
                raise TypeError("'default' is not supported for nargs=-1.")

    @property
    def human_readable_name(self) -> str:
        if self.metavar is not None:
            return self.metavar
        return self.name.upper()  # type: ignore

    def make_metavar(self, ctx: Context) -> str:
        if self.metavar is not None:
            return self.metavar
        var = self.type.get_metavar(param=self, ctx=ctx)
        if not var:
            var = self.name.upper()  # type: ignore
        if self.deprecated:
            var += "!"
        if not self.required:
            var = f"[{var}]"
        if self.nargs != 1:
            var += "..."
        return var

    def _parse_decls(
        self, decls: cabc.Sequence[str], expose_value: bool
    ) -> tuple[str | None, list[str], list[str]]:
        if not decls:
            if not expose_value:
                return None, [], []
            raise TypeError("Argument is marked as exposed, but does not have a name.")
        if len(decls) == 1:
            name = arg = decls[0]
            name = name.replace("-", "_").lower()
        else:
            raise TypeError(
                "Arguments take exactly one parameter declaration, got"
                f" {len(decls)}: {decls}."
            )
        return name, [arg], []

    def get_usage_pieces(self, ctx: Context) -> list[str]:
        return [self.make_metavar(ctx)]

    def get_error_hint(self, ctx: Context) -> str:
        return f"'{self.make_metavar(ctx)}'"

    def add_to_parser(self, parser: _OptionParser, ctx: Context) -> None:
        parser.add_argument(dest=self.name, nargs=self.nargs, obj=self)


def __getattr__(name: str) -> object:
    import warnings

    if name == "BaseCommand":
        warnings.warn(
            "'BaseCommand' is deprecated and will be removed in Click 9.0. Use"
            " 'Command' instead.",
            DeprecationWarning,
            stacklevel=2,
        )
        return _BaseCommand

    if name == "MultiCommand":
        warnings.warn(
            "'MultiCommand' is deprecated and will be removed in Click 9.0. Use"
            " 'Group' instead.",
            DeprecationWarning,
            stacklevel=2,
        )
        return _MultiCommand

    raise AttributeError(name)
