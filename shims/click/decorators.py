from __future__ import annotations

import inspect
import typing as t
from functools import update_wrapper
from gettext import gettext as _

from .core import Argument
from .core import Command
from .core import Context
from .core import Group
from .core import Option
from .core import Parameter
from .globals import get_current_context
from .utils import echo

if t.TYPE_CHECKING:
    import typing_extensions as te

    P = te.ParamSpec("P")

R = t.TypeVar("R")
T = t.TypeVar("T")
_AnyCallable = t.Callable[..., t.Any]
FC = t.TypeVar("FC", bound="_AnyCallable | Command")


def pass_context(f: t.Callable[te.Concatenate[Context, P], R]) -> t.Callable[P, R]:
    """Marks a callback as wanting to receive the current context
    object as first argument.
    """

    def new_func(*args: P.args, **kwargs: P.kwargs) -> R:
        return f(get_current_context(), *args, **kwargs)

    return update_wrapper(new_func, f)


def pass_obj(f: t.Callable[te.Concatenate[T, P], R]) -> t.Callable[P, R]:
    """Similar to :func:`pass_context`, but only pass the object on the
    context onwards (:attr:`Context.obj`).  This is useful if that object
    represents the state of a nested system.
    """

    def new_func(*args: P.args, **kwargs: P.kwargs) -> R:
        return f(get_current_context().obj, *args, **kwargs)

    return update_wrapper(new_func, f)


def make_pass_decorator(
    object_type: type[T], ensure: bool = False
) -> t.Callable[[t.Callable[te.Concatenate[T, P], R]], t.Callable[P, R]]:
    """Given an object type this creates a decorator that will work
    similar to :func:`pass_obj` but instead of passing the object of the
    current context, it will find the innermost context of type
    :func:`object_type`.

    This generates a decorator that works roughly like this::

        from functools import update_wrapper

        def decorator(f):
            @pass_context
            def new_func(ctx, *args, **kwargs):
                obj = ctx.find_object(object_type)
                return ctx.invoke(f, obj, *args, **kwargs)
            return update_wrapper(new_func, f)
        return decorator

    :param object_type: the type of the object to pass.
    :param ensure: if set to `True`, a new object will be created and
                   remembered on the context if it's not there yet.
    """

    def decorator(f: t.Callable[te.Concatenate[T, P], R]) -> t.Callable[P, R]:
        def new_func(*args: P.args, **kwargs: P.kwargs) -> R:
            ctx = get_current_context()

            obj: T | None
            if ensure:
                obj = ctx.ensure_object(object_type)
            else:
                obj = ctx.find_object(object_type)

            if obj is None:
                raise RuntimeError(
                    "Managed to invoke callback without a context"
                    f" object of type {object_type.__name__!r}"
                    " existing."
                )

            return ctx.invoke(f, obj, *args, **kwargs)

        return update_wrapper(new_func, f)

    return decorator


def pass_meta_key(
    key: str, *, doc_description: str | None = None
) -> t.Callable[[t.Callable[te.Concatenate[T, P], R]], t.Callable[P, R]]:
    """Create a decorator that passes a key from
    :attr:`click.Context.meta` as the first argument to the decorated
    function.

    :param key: Key in ``Context.meta`` to pass.
    :param doc_description: Description of the object being passed,
        inserted into the decorator's docstring. Defaults to "the 'key'
        key from Context.meta".

    .. versionadded:: 8.0
    """

    def decorator(f: t.Callable[te.Concatenate[T, P], R]) -> t.Callable[P, R]:
        def new_func(*args: P.args, **kwargs: P.kwargs) -> R:
            ctx = get_current_context()
            obj = ctx.meta[key]
            return ctx.invoke(f, obj, *args, **kwargs)

        return update_wrapper(new_func, f)

    if doc_description is None:
        doc_description = f"the {key!r} key from :attr:`click.Context.meta`"

    decorator.__doc__ = (
        f"Decorator that passes {doc_description} as the first argument"
        " to the decorated function."
    )
    return decorator


CmdType = t.TypeVar("CmdType", bound=Command)


# variant: no call, directly as decorator for a function.
@t.overload
def command(name: _AnyCallable) -> Command: ...


# variant: with positional name and with positional or keyword cls argument:
# @command(namearg, CommandCls, ...) or @command(namearg, cls=CommandCls, ...)
@t.overload
def command(
    name: str | None,
    cls: type[CmdType],
    **attrs: t.Any,
) -> t.Callable[[_AnyCallable], CmdType]: ...


# variant: name omitted, cls _must_ be a keyword argument, @command(cls=CommandCls, ...)
@t.overload
def command(
    name: None = None,
    *,
    cls: type[CmdType],
    **attrs: t.Any,
) -> t.Callable[[_AnyCallable], CmdType]: ...


# variant: with optional string name, no cls argument provided.
@t.overload
def command(
    name: str | None = ..., cls: None = None, **attrs: t.Any
) -> t.Callable[[_AnyCallable], Command]: ...


def command(
    name: str | _AnyCallable | None = None,
    cls: type[CmdType] | None = None,
    **attrs: t.Any,
) -> Command | t.Callable[[_AnyCallable], Command | CmdType]:
    r"""Creates a new :class:`Command` and uses the decorated function as
    callback.  This will also automatically attach all decorated
    :func:`option`\s and :func:`argument`\s as parameters to the command.

    The name of the command defaults to the name of the function, converted to
    lowercase, with underscores ``_`` replaced by dashes ``-``, and the suffixes
    ``_command``, ``_cmd``, ``_group``, and ``_grp`` are removed. For example,
    ``init_data_command`` becomes ``init-data``.

    All keyword arguments are forwarded to the underlying command class.
    For the ``params`` argument, any decorated params are appended to
    the end of the list.

    Once decorated the function turns into a :class:`Command` instance
    that can be invoked as a command line utility or be attached to a
    command :class:`Group`.

    :param name: The name of the command. Defaults to modifying the function's
        name as described above.
    :param cls: The command class to create. Defaults to :class:`Command`.

    .. versionchanged:: 8.2
        The suffixes ``_command``, ``_cmd``, ``_group``, and ``_grp`` are
        removed when generating the name.

    .. versionchanged:: 8.1
        This decorator can be applied without parentheses.

    .. versionchanged:: 8.1
        The ``params`` argument can be used. Decorated params are
        appended to the end of the list.
    """

    func: t.Callable[[_AnyCallable], t.Any] | None = None

    if callable(name):
        func = name
        name = None
        assert cls is None, "Use 'command(cls=cls)(callable)' to specify a class."
        assert not attrs, "Use 'command(**kwargs)(callable)' to provide arguments."

    if cls is None:
        cls = t.cast("type[CmdType]", Command)

    def decorator(f: _AnyCallable) -> CmdType:
        if isinstance(f, Command):
            raise TypeError("Attempted to convert a callback into a command twice.")

        attr_params = attrs.pop("params", None)
        params = attr_params if attr_params is not None else []

        try:
            decorator_params = f.__click_params__  # type: ignore
        except AttributeError:
            pass
        else:
            del f.__click_params__  # type: ignore
            params.extend(reversed(decorator_params))

        if attrs.get("help") is None:
            attrs["help"] = f.__doc__

        if t.TYPE_CHECKING:
            assert cls is not None
            assert not callable(name)

        if name is not None:
            cmd_name = name
        else:
            cmd_name = f.__name__.lower().replace("_", "-")
            cmd_left, sep, suffix = cmd_name.rpartition("-")

            if sep and suffix in {"command", "cmd", "group", "grp"}:
                cmd_name = cmd_left

        cmd = cls(name=cmd_name, callback=f, params=params, **attrs)
        cmd.__doc__ = f.__doc__
        return cmd

    if func is not None:
        return decorator(func)

    return decorator


GrpType = t.TypeVar("GrpType", bound=Group)


# variant: no call, directly as decorator for a function.
@t.overload
def group(name: _AnyCallable) -> Group: ...


# variant: with positional name and with positional or keyword cls argument:
# @group(namearg, GroupCls, ...) or @group(namearg, cls=GroupCls, ...)
@t.overload
def group(
    name: str | None,
    cls: type[GrpType],
    **attrs: t.Any,
) -> t.Callable[[_AnyCallable], GrpType]: ...


# variant: name omitted, cls _must_ be a keyword argument, @group(cmd=GroupCls, ...)
@t.overload
def group(
    name: None = None,
    *,
    cls: type[GrpType],
    **attrs: t.Any,
) -> t.Callable[[_AnyCallable], GrpType]: ...


# variant: with optional string name, no cls argument provided.
@t.overload
def group(
    name: str | None = ..., cls: None = None, **attrs: t.Any
) -> t.Callable[[_AnyCallable], Group]: ...


def group(
    name: str | _AnyCallable | None = None,
    cls: type[GrpType] | None = None,
    **attrs: t.Any,
) -> Group | t.Callable[[_AnyCallable], Group | GrpType]:
    """Creates a new :class:`Group` with a function as callback.  This
    works otherwise the same as :func:`command` just that the `cls`
    parameter is set to :class:`Group`.

    .. versionchanged:: 8.1
        This decorator can be applied without parentheses.
    """
    if cls is None:
        cls = t.cast("type[GrpType]", Group)

    if callable(name):
        return command(cls=cls, **attrs)(name)

    return command(name, cls, **attrs)


def _param_memo(f: t.Callable[..., t.Any], param: Parameter) -> None:
    if isinstance(f, Command):
        f.params.append(param)
    else:
        if not hasattr(f, "__click_params__"):
            f.__click_params__ = []  # type: ignore

        f.__click_params__.append(param)  # type: ignore


def argument(
    *param_decls: str, cls: type[Argument] | None = None, **attrs: t.Any
) -> t.Callable[[FC], FC]:
    """Attaches an argument to the command.  All positional arguments are
    passed as parameter declarations to :class:`Argument`; all keyword
    arguments are forwarded unchanged (except ``cls``).
    This is equivalent to creating an :class:`Argument` instance manually
    and attaching it to the :attr:`Command.params` list.

    For the default argument class, refer to :class:`Argument` and
    :class:`Parameter` for descriptions of parameters.

    :param cls: the argument class to instantiate.  This defaults to
                :class:`Argument`.
    :param param_decls: Passed as positional arguments to the constructor of
        ``cls``.
    :param attrs: Passed as keyword arguments to the constructor of ``cls``.
    """
    if cls is None:
        cls = Argument

    def decorator(f: FC) -> FC:
        _param_memo(f, cls(param_decls, **attrs))
        return f

    return decorator


def option(
    *param_decls: str, cls: type[Option] | None = None, **attrs: t.Any
) -> t.Callable[[FC], FC]:
    """Attaches an option to the command.  All positional arguments are
    passed as parameter declarations to :class:`Option`; all keyword
    arguments are forwarded unchanged (except ``cls``).
    This is equivalent to creating an :class:`Option` instance manually
    and attaching it to the :attr:`Command.params` list.

    For the default option class, refer to :class:`Option` and
    :class:`Parameter` for descriptions of parameters.

    :param cls: the option class to instantiate.  This defaults to
                :class:`Option`.
    :param param_decls: Passed as positional arguments to the constructor of
        ``cls``.
    :param attrs: Passed as keyword arguments to the constructor of ``cls``.
    """
    if cls is None:
        cls = Option

    def decorator(f: FC) -> FC:
        _param_memo(f, cls(param_decls, **attrs))
        return f

    return decorator


def confirmation_option(*param_decls: str, **kwargs: t.Any) -> t.Callable[[FC], FC]:
    """Add a ``--yes`` option which shows a prompt before continuing if
    not passed. If the prompt is declined, the program will exit.

    :param param_decls: One or more option names. Defaults to the single
        value ``"--yes"``.
    :param kwargs: Extra arguments are passed to :func:`option`.
    """

    def callback(ctx: Context, param: Parameter, value: bool) -> None:
        if not value:
            ctx.abort()

    if not param_decls:
        param_decls = ("--yes",)

    kwargs.setdefault("is_flag", True)
    kwargs.setdefault("callback", callback)
    kwargs.setdefault("expose_value", False)
    kwargs.setdefault("prompt", "Do you want to continue?")
    kwargs.setdefault("help", "Confirm the action without prompting.")
    return option(*param_decls, **kwargs)


def password_option(*param_decls: str, **kwargs: t.Any) -> t.Callable[[FC], FC]:
    """Add a ``--password`` option which prompts for a password, hiding
    input and asking to enter the value again for confirmation.

    :param param_decls: One or more option names. Defaults to the single
        value ``"--password"``.
    :param kwargs: Extra arguments are passed to :func:`option`.
    """
    if not param_decls:
        param_decls = ("--password",)

    kwargs.setdefault("prompt", True)
    kwargs.setdefault("confirmation_prompt", True)
    kwargs.setdefault("hide_input", True)
    return option(*param_decls, **kwargs)


def version_option(
    version: str | None = None,
    *param_decls: str,
    package_name: str | None = None,
    prog_name: str | None = None,
    message: str | None = None,
    **kwargs: t.Any,
) -> t.Callable[[FC], FC]:
    """Add a ``--version`` option which immediately prints the version
    number and exits the program.

    If ``version`` is not provided, Click will try to detect it using
    :func:`importlib.metadata.version` to get the version for the
    ``package_name``.

    If ``package_name`` is not provided, Click will try to detect it by
    inspecting the stack frames. This will be used to detect the
    version, so it must match the name of the installed package.

    :param version: The version number to show. If not provided, Click
        will try to detect it.
    :param param_decls: One or more option names. Defaults to the single
        value ``"--version"``.
    :param package_name: The package name to detect the version from. If
        not provided, Click will try to detect it.
    :param prog_name: The name of the CLI to show in the message. If not
        provided, it will be detected from the command.
    :param message: The message to show. The values ``%(prog)s``,
        ``%(package)s``, and ``%(version)s`` are available. Defaults to
        ``"%(prog)s, version %(version)s"``.
    :param kwargs: Extra arguments are passed to :func:`option`.
    :raise RuntimeError: ``version`` could not be detected.

    .. versionchanged:: 8.0
        Add the ``package_name`` parameter, and the ``%(package)s``
        value for messages.

    .. versionchanged:: 8.0
        Use :mod:`importlib.metadata` instead of ``pkg_resources``. The
        version is detected based on the package name, not the entry
        point name. The Python package name must match the installed
        package name, or be passed with ``package_name=``.
    """
    if message is None:
        message = _("%(prog)s, version %(version)s")

    if version is None and package_name is None:
        frame = inspect.currentframe()
        f_back = frame.f_back if frame is not None else None
        f_globals = f_back.f_globals if f_back is not None else None
        # break reference cycle
        # https://docs.python.org/3/library/inspect.html#the-interpreter-stack
        del frame

        if f_globals is not None:
            package_name = f_globals.get("__name__")

            if package_name == "__main__":
                package_name = f_globals.get("__package__")

            if package_name:
                package_name = package_name.partition(".")[0]

    def callback(ctx: Context, param: Parameter, value: bool) -> None:
        if not value or ctx.resilient_parsing:
            return

        nonlocal prog_name
        nonlocal version

        if prog_name is None:
            prog_name = ctx.find_root().info_name

        if version is None and package_name is not None:
            import importlib.metadata

            try:
                version = importlib.metadata.version(package_name)
            except importlib.metadata.PackageNotFoundError:
                raise RuntimeError(
                    f"{package_name!r} is not installed. Try passing"
                    " 'package_name' instead."
                ) from None

        if version is None:
            raise RuntimeError(
                f"Could not determine the version for {package_name!r} automatically."
            )

        echo(
            message % {"prog": prog_name, "package": package_name, "version": version},
            color=ctx.color,
        )
        ctx.exit()

    if not param_decls:
        param_decls = ("--version",)

    kwargs.setdefault("is_flag", True)
    kwargs.setdefault("expose_value", False)
    kwargs.setdefault("is_eager", True)
    kwargs.setdefault("help", _("Show the version and exit."))
    kwargs["callback"] = callback
    return option(*param_decls, **kwargs)


def help_option(*param_decls: str, **kwargs: t.Any) -> t.Callable[[FC], FC]:
    """Pre-configured ``--help`` option which immediately prints the help page
    and exits the program.

    :param param_decls: One or more option names. Defaults to the single
        value ``"--help"``.
    :param kwargs: Extra arguments are passed to :func:`option`.
    """

    def show_help(ctx: Context, param: Parameter, value: bool) -> None:
        """Callback that print the help page on ``<stdout>`` and exits."""
        if value and not ctx.resilient_parsing:
            echo(ctx.get_help(), color=ctx.color)
            ctx.exit()

    if not param_decls:
        param_decls = ("--help",)

    kwargs.setdefault("is_flag", True)
    kwargs.setdefault("expose_value", False)
    kwargs.setdefault("is_eager", True)
    kwargs.setdefault("help", _("Show this message and exit."))
    kwargs.setdefault("callback", show_help)

    return option(*param_decls, **kwargs)
