from __future__ import annotations

import collections.abc as cabc
import os
import re
import sys
import typing as t
from functools import update_wrapper
from types import ModuleType
from types import TracebackType

from ._compat import _default_text_stderr
from ._compat import _default_text_stdout
from ._compat import _find_binary_writer
from ._compat import auto_wrap_for_ansi
from ._compat import binary_streams
from ._compat import open_stream
from ._compat import should_strip_ansi
from ._compat import strip_ansi
from ._compat import text_streams
from ._compat import WIN
from .globals import resolve_color_default

if t.TYPE_CHECKING:
    import typing_extensions as te

    P = te.ParamSpec("P")

R = t.TypeVar("R")


def _posixify(name: str) -> str:
    return "-".join(name.split()).lower()


def safecall(func: t.Callable[P, R]) -> t.Callable[P, R | None]:
    """Wraps a function so that it swallows exceptions."""

    def wrapper(*args: P.args, **kwargs: P.kwargs) -> R | None:
        try:
            return func(*args, **kwargs)
        except Exception:
            pass
        return None

    return update_wrapper(wrapper, func)


def make_str(value: t.Any) -> str:
    """Converts a value into a valid string."""
    if isinstance(value, bytes):
        try:
            return value.decode(sys.getfilesystemencoding())
        except UnicodeError:
            return value.decode("utf-8", "replace")
    return str(value)


def make_default_short_help(help: str, max_length: int = 45) -> str:
    """Returns a condensed version of help string."""
    # Consider only the first paragraph.
    paragraph_end = help.find("\n\n")

    if paragraph_end != -1:
        help = help[:paragraph_end]

    # Collapse newlines, tabs, and spaces.
    words = help.split()

    if not words:
        return ""

    # The first paragraph started with a "no rewrap" marker, ignore it.
    if words[0] == "\b":
        words = words[1:]

    total_length = 0
    last_index = len(words) - 1

    for i, word in enumerate(words):
        total_length += len(word) + (i > 0)

        if total_length > max_length:  # too long, truncate
            break

        if word[-1] == ".":  # sentence end, truncate without "..."
            return " ".join(words[: i + 1])

        if total_length == max_length and i != last_index:
            break  # not at sentence end, truncate with "..."
    else:
        return " ".join(words)  # no truncation needed

    # Account for the length of the suffix.
    total_length += len("...")

    # remove words until the length is short enough
    while i > 0:
        total_length -= len(words[i]) + (i > 0)

        if total_length <= max_length:
            break

        i -= 1

    return " ".join(words[:i]) + "..."


class LazyFile:
    """A lazy file works like a regular file but it does not fully open
    the file but it does perform some basic checks early to see if the
    filename parameter does make sense.  This is useful for safely opening
    files for writing.
    """

    def __init__(
        self,
        filename: str | os.PathLike[str],
        mode: str = "r",
        encoding: str | None = None,
        errors: str | None = "strict",
        atomic: bool = False,
    ):
        self.name: str = os.fspath(filename)
        self.mode = mode
        self.encoding = encoding
        self.errors = errors
        self.atomic = atomic
        self._f: t.IO[t.Any] | None
        self.should_close: bool

        if self.name == "-":
            self._f, self.should_close = open_stream(filename, mode, encoding, errors)
        else:
            if "r" in mode:
                # Open and close the file in case we're opening it for
                # reading so that we can catch at least some errors in
                # some cases early.
                open(filename, mode).close()
            self._f = None
            self.should_close = True

    def __getattr__(self, name: str) -> t.Any:
        return getattr(self.open(), name)

    def __repr__(self) -> str:
        if self._f is not None:
            return repr(self._f)
        return f"<unopened file '{format_filename(self.name)}' {self.mode}>"

    def open(self) -> t.IO[t.Any]:
        """Opens the file if it's not yet open.  This call might fail with
        a :exc:`FileError`.  Not handling this error will produce an error
        that Click shows.
        """
        if self._f is not None:
            return self._f
        try:
            rv, self.should_close = open_stream(
                self.name, self.mode, self.encoding, self.errors, atomic=self.atomic
            )
        except OSError as e:
            from .exceptions import FileError

            raise FileError(self.name, hint=e.strerror) from e
        self._f = rv
        return rv

    def close(self) -> None:
        """Closes the underlying file, no matter what."""
        if self._f is not None:
            self._f.close()

    def close_intelligently(self) -> None:
        """This function only closes the file if it was opened by the lazy
        file wrapper.  For instance this will never close stdin.
        """
        if self.should_close:
            self.close()

    def __enter__(self) -> LazyFile:
        return self

    def __exit__(
        self,
        exc_type: type[BaseException] | None,
        exc_value: BaseException | None,
        tb: TracebackType | None,
    ) -> None:
        self.close_intelligently()

    def __iter__(self) -> cabc.Iterator[t.AnyStr]:
        self.open()
        return iter(self._f)  # type: ignore


class KeepOpenFile:
    def __init__(self, file: t.IO[t.Any]) -> None:
        self._file: t.IO[t.Any] = file

    def __getattr__(self, name: str) -> t.Any:
        return getattr(self._file, name)

    def __enter__(self) -> KeepOpenFile:
        return self

    def __exit__(
        self,
        exc_type: type[BaseException] | None,
        exc_value: BaseException | None,
        tb: TracebackType | None,
    ) -> None:
        pass

    def __repr__(self) -> str:
        return repr(self._file)

    def __iter__(self) -> cabc.Iterator[t.AnyStr]:
        return iter(self._file)


def echo(
    message: t.Any | None = None,
    file: t.IO[t.Any] | None = None,
    nl: bool = True,
    err: bool = False,
    color: bool | None = None,
) -> None:
    """Print a message and newline to stdout or a file. This should be
    used instead of :func:`print` because it provides better support
    for different data, files, and environments.

    Compared to :func:`print`, this does the following:

    -   Ensures that the output encoding is not misconfigured on Linux.
    -   Supports Unicode in the Windows console.
    -   Supports writing to binary outputs, and supports writing bytes
        to text outputs.
    -   Supports colors and styles on Windows.
    -   Removes ANSI color and style codes if the output does not look
        like an interactive terminal.
    -   Always flushes the output.

    :param message: The string or bytes to output. Other objects are
        converted to strings.
    :param file: The file to write to. Defaults to ``stdout``.
    :param err: Write to ``stderr`` instead of ``stdout``.
    :param nl: Print a newline after the message. Enabled by default.
    :param color: Force showing or hiding colors and other styles. By
        default Click will remove color if the output does not look like
        an interactive terminal.

    .. versionchanged:: 6.0
        Support Unicode output on the Windows console. Click does not
        modify ``sys.stdout``, so ``sys.stdout.write()`` and ``print()``
        will still not support Unicode.

    .. versionchanged:: 4.0
        Added the ``color`` parameter.

    .. versionadded:: 3.0
        Added the ``err`` parameter.

    .. versionchanged:: 2.0
        Support colors on Windows if colorama is installed.
    """
    if file is None:
        if err:
            file = _default_text_stderr()
        else:
            file = _default_text_stdout()

        # There are no standard streams attached to write to. For example,
        # pythonw on Windows.
        if file is None:
            return

    # Convert non bytes/text into the native string type.
    if message is not None and not isinstance(message, (str, bytes, bytearray)):
        out: str | bytes | None = str(message)
    else:
        out = message

    if nl:
        out = out or ""
        if isinstance(out, str):
            out += "\n"
        else:
            out += b"\n"

    if not out:
        file.flush()
        return

    # If there is a message and the value looks like bytes, we manually
    # need to find the binary stream and write the message in there.
    # This is done separately so that most stream types will work as you
    # would expect. Eg: you can write to StringIO for other cases.
    if isinstance(out, (bytes, bytearray)):
        binary_file = _find_binary_writer(file)

        if binary_file is not None:
            file.flush()
            binary_file.write(out)
            binary_file.flush()
            return

    # ANSI style code support. For no message or bytes, nothing happens.
    # When outputting to a file instead of a terminal, strip codes.
    else:
        color = resolve_color_default(color)

        if should_strip_ansi(file, color):
            out = strip_ansi(out)
        elif WIN:
            if auto_wrap_for_ansi is not None:
                file = auto_wrap_for_ansi(file, color)  # type: ignore
            elif not color:
                out = strip_ansi(out)

    file.write(out)  # type: ignore
    file.flush()


def get_binary_stream(name: t.Literal["stdin", "stdout", "stderr"]) -> t.BinaryIO:
    """Returns a system stream for byte processing.

    :param name: the name of the stream to open.  Valid names are ``'stdin'``,
                 ``'stdout'`` and ``'stderr'``
    """
    opener = binary_streams.get(name)
    if opener is None:
        raise TypeError(f"Unknown standard stream '{name}'")
    return opener()


def get_text_stream(
    name: t.Literal["stdin", "stdout", "stderr"],
    encoding: str | None = None,
    errors: str | None = "strict",
) -> t.TextIO:
    """Returns a system stream for text processing.  This usually returns
    a wrapped stream around a binary stream returned from
    :func:`get_binary_stream` but it also can take shortcuts for already
    correctly configured streams.

    :param name: the name of the stream to open.  Valid names are ``'stdin'``,
                 ``'stdout'`` and ``'stderr'``
    :param encoding: overrides the detected default encoding.
    :param errors: overrides the default error mode.
    """
    opener = text_streams.get(name)
    if opener is None:
        raise TypeError(f"Unknown standard stream '{name}'")
    return opener(encoding, errors)


def open_file(
    filename: str | os.PathLike[str],
    mode: str = "r",
    encoding: str | None = None,
    errors: str | None = "strict",
    lazy: bool = False,
    atomic: bool = False,
) -> t.IO[t.Any]:
    """Open a file, with extra behavior to handle ``'-'`` to indicate
    a standard stream, lazy open on write, and atomic write. Similar to
    the behavior of the :class:`~click.File` param type.

    If ``'-'`` is given to open ``stdout`` or ``stdin``, the stream is
    wrapped so that using it in a context manager will not close it.
    This makes it possible to use the function without accidentally
    closing a standard stream:

    .. code-block:: python

        with open_file(filename) as f:
            ...

    :param filename: The name or Path of the file to open, or ``'-'`` for
        ``stdin``/``stdout``.
    :param mode: The mode in which to open the file.
    :param encoding: The encoding to decode or encode a file opened in
        text mode.
    :param errors: The error handling mode.
    :param lazy: Wait to open the file until it is accessed. For read
        mode, the file is temporarily opened to raise access errors
        early, then closed until it is read again.
    :param atomic: Write to a temporary file and replace the given file
        on close.

    .. versionadded:: 3.0
    """
    if lazy:
        return t.cast(
            "t.IO[t.Any]", LazyFile(filename, mode, encoding, errors, atomic=atomic)
        )

    f, should_close = open_stream(filename, mode, encoding, errors, atomic=atomic)

    if not should_close:
        f = t.cast("t.IO[t.Any]", KeepOpenFile(f))

    return f


def format_filename(
    filename: str | bytes | os.PathLike[str] | os.PathLike[bytes],
    shorten: bool = False,
) -> str:
    """Format a filename as a string for display. Ensures the filename can be
    displayed by replacing any invalid bytes or surrogate escapes in the name
    with the replacement character ``�``.

    Invalid bytes or surrogate escapes will raise an error when written to a
    stream with ``errors="strict"``. This will typically happen with ``stdout``
    when the locale is something like ``en_GB.UTF-8``.

    Many scenarios *are* safe to write surrogates though, due to PEP 538 and
    PEP 540, including:

    -   Writing to ``stderr``, which uses ``errors="backslashreplace"``.
    -   The system has ``LANG=C.UTF-8``, ``C``, or ``POSIX``. Python opens
        stdout and stderr with ``errors="surrogateescape"``.
    -   None of ``LANG/LC_*`` are set. Python assumes ``LANG=C.UTF-8``.
    -   Python is started in UTF-8 mode  with  ``PYTHONUTF8=1`` or ``-X utf8``.
        Python opens stdout and stderr with ``errors="surrogateescape"``.

    :param filename: formats a filename for UI display.  This will also convert
                     the filename into unicode without failing.
    :param shorten: this optionally shortens the filename to strip of the
                    path that leads up to it.
    """
    if shorten:
        filename = os.path.basename(filename)
    else:
        filename = os.fspath(filename)

    if isinstance(filename, bytes):
        filename = filename.decode(sys.getfilesystemencoding(), "replace")
    else:
        filename = filename.encode("utf-8", "surrogateescape").decode(
            "utf-8", "replace"
        )

    return filename


def get_app_dir(app_name: str, roaming: bool = True, force_posix: bool = False) -> str:
    r"""Returns the config folder for the application.  The default behavior
    is to return whatever is most appropriate for the operating system.

    To give you an idea, for an app called ``"Foo Bar"``, something like
    the following folders could be returned:

    Mac OS X:
      ``~/Library/Application Support/Foo Bar``
    Mac OS X (POSIX):
      ``~/.foo-bar``
    Unix:
      ``~/.config/foo-bar``
    Unix (POSIX):
      ``~/.foo-bar``
    Windows (roaming):
      ``C:\Users\<user>\AppData\Roaming\Foo Bar``
    Windows (not roaming):
      ``C:\Users\<user>\AppData\Local\Foo Bar``

    .. versionadded:: 2.0

    :param app_name: the application name.  This should be properly capitalized
                     and can contain whitespace.
    :param roaming: controls if the folder should be roaming or not on Windows.
                    Has no effect otherwise.
    :param force_posix: if this is set to `True` then on any POSIX system the
                        folder will be stored in the home folder with a leading
                        dot instead of the XDG config home or darwin's
                        application support folder.
    """
    if WIN:
        key = "APPDATA" if roaming else "LOCALAPPDATA"
        folder = os.environ.get(key)
        if folder is None:
            folder = os.path.expanduser("~")
        return os.path.join(folder, app_name)
    if force_posix:
        return os.path.join(os.path.expanduser(f"~/.{_posixify(app_name)}"))
    if sys.platform == "darwin":
        return os.path.join(
            os.path.expanduser("~/Library/Application Support"), app_name
        )
    return os.path.join(
        os.environ.get("XDG_CONFIG_HOME", os.path.expanduser("~/.config")),
        _posixify(app_name),
    )


class PacifyFlushWrapper:
    """This wrapper is used to catch and suppress BrokenPipeErrors resulting
    from ``.flush()`` being called on broken pipe during the shutdown/final-GC
    of the Python interpreter. Notably ``.flush()`` is always called on
    ``sys.stdout`` and ``sys.stderr``. So as to have minimal impact on any
    other cleanup code, and the case where the underlying file is not a broken
    pipe, all calls and attributes are proxied.
    """

    def __init__(self, wrapped: t.IO[t.Any]) -> None:
        self.wrapped = wrapped

    def flush(self) -> None:
        try:
            self.wrapped.flush()
        except OSError as e:
            import errno

            if e.errno != errno.EPIPE:
                raise

    def __getattr__(self, attr: str) -> t.Any:
        return getattr(self.wrapped, attr)


def _detect_program_name(
    path: str | None = None, _main: ModuleType | None = None
) -> str:
    """Determine the command used to run the program, for use in help
    text. If a file or entry point was executed, the file name is
    returned. If ``python -m`` was used to execute a module or package,
    ``python -m name`` is returned.

    This doesn't try to be too precise, the goal is to give a concise
    name for help text. Files are only shown as their name without the
    path. ``python`` is only shown for modules, and the full path to
    ``sys.executable`` is not shown.

    :param path: The Python file being executed. Python puts this in
        ``sys.argv[0]``, which is used by default.
    :param _main: The ``__main__`` module. This should only be passed
        during internal testing.

    .. versionadded:: 8.0
        Based on command args detection in the Werkzeug reloader.

    :meta private:
    """
    if _main is None:
        _main = sys.modules["__main__"]

    if not path:
        path = sys.argv[0]

    # The value of __package__ indicates how Python was called. It may
    # not exist if a setuptools script is installed as an egg. It may be
    # set incorrectly for entry points created with pip on Windows.
    # It is set to "" inside a Shiv or PEX zipapp.
    if getattr(_main, "__package__", None) in {None, ""} or (
        os.name == "nt"
        and _main.__package__ == ""
        and not os.path.exists(path)
        and os.path.exists(f"{path}.exe")
    ):
        # Executed a file, like "python app.py".
        return os.path.basename(path)

    # Executed a module, like "python -m example".
    # Rewritten by Python from "-m script" to "/path/to/script.py".
    # Need to look at main module to determine how it was executed.
    py_module = t.cast(str, _main.__package__)
    name = os.path.splitext(os.path.basename(path))[0]

    # A submodule like "example.cli".
    if name != "__main__":
        py_module = f"{py_module}.{name}"

    return f"python -m {py_module.lstrip('.')}"


def _expand_args(
    args: cabc.Iterable[str],
    *,
    user: bool = True,
    env: bool = True,
    glob_recursive: bool = True,
) -> list[str]:
    """Simulate Unix shell expansion with Python functions.

    See :func:`glob.glob`, :func:`os.path.expanduser`, and
    :func:`os.path.expandvars`.

    This is intended for use on Windows, where the shell does not do any
    expansion. It may not exactly match what a Unix shell would do.

    :param args: List of command line arguments to expand.
    :param user: Expand user home directory.
    :param env: Expand environment variables.
    :param glob_recursive: ``**`` matches directories recursively.

    .. versionchanged:: 8.1
        Invalid glob patterns are treated as empty expansions rather
        than raising an error.

    .. versionadded:: 8.0

    :meta private:
    """
    from glob import glob

    out = []

    for arg in args:
        if user:
            arg = os.path.expanduser(arg)

        if env:
            arg = os.path.expandvars(arg)

        try:
            matches = glob(arg, recursive=glob_recursive)
        except re.error:
            matches = []

        if not matches:
            out.append(arg)
        else:
            out.extend(matches)

    return out
