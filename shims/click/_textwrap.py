from __future__ import annotations

import collections.abc as cabc
import textwrap
from contextlib import contextmanager


class TextWrapper(textwrap.TextWrapper):
    def _handle_long_word(
        self,
        reversed_chunks: list[str],
        cur_line: list[str],
        cur_len: int,
        width: int,
    ) -> None:
        space_left = max(width - cur_len, 1)

        if self.break_long_words:
            last = reversed_chunks[-1]
            cut = last[:space_left]
            res = last[space_left:]
            cur_line.append(cut)
            reversed_chunks[-1] = res
        elif not cur_line:
            cur_line.append(reversed_chunks.pop())

    @contextmanager
    def extra_indent(self, indent: str) -> cabc.Iterator[None]:
        old_initial_indent = self.initial_indent
        old_subsequent_indent = self.subsequent_indent
        self.initial_indent += indent
        self.subsequent_indent += indent

        try:
            yield
        finally:
            self.initial_indent = old_initial_indent
            self.subsequent_indent = old_subsequent_indent

    def indent_only(self, text: str) -> str:
        rv = []

        for idx, line in enumerate(text.splitlines()):
            indent = self.initial_indent

            if idx > 0:
                indent = self.subsequent_indent

            rv.append(f"{indent}{line}")

        return "\n".join(rv)
