from __future__ import annotations

import collections.abc as cabc
import contextlib
import io
import os
import shlex
import shutil
import sys
import tempfile
import typing as t
from types import TracebackType

from . import _compat
from . import formatting
from . import termui
from . import utils
from ._compat import _find_binary_reader

if t.TYPE_CHECKING:
    from _typeshed import ReadableBuffer

    from .core import Command


class EchoingStdin:
    def __init__(self, input: t.BinaryIO, output: t.BinaryIO) -> None:
        self._input = input
        self._output = output
        self._paused = False

    def __getattr__(self, x: str) -> t.Any:
        return getattr(self._input, x)

    def _echo(self, rv: bytes) -> bytes:
        if not self._paused:
            self._output.write(rv)

        return rv

    def read(self, n: int = -1) -> bytes:
        return self._echo(self._input.read(n))

    def read1(self, n: int = -1) -> bytes:
        return self._echo(self._input.read1(n))  # type: ignore

    def readline(self, n: int = -1) -> bytes:
        return self._echo(self._input.readline(n))

    def readlines(self) -> list[bytes]:
        return [self._echo(x) for x in self._input.readlines()]

    def __iter__(self) -> cabc.Iterator[bytes]:
        return iter(self._echo(x) for x in self._input)

    def __repr__(self) -> str:
        return repr(self._input)


@contextlib.contextmanager
def _pause_echo(stream: EchoingStdin | None) -> cabc.Iterator[None]:
    if stream is None:
        yield
    else:
        stream._paused = True
        yield
        stream._paused = False


class BytesIOCopy(io.BytesIO):
    """Patch ``io.BytesIO`` to let the written stream be copied to another.

    .. versionadded:: 8.2
    """

    def __init__(self, copy_to: io.BytesIO) -> None:
        super().__init__()
        self.copy_to = copy_to

    def flush(self) -> None:
        super().flush()
        self.copy_to.flush()

    def write(self, b: ReadableBuffer) -> int:
        self.copy_to.write(b)
        return super().write(b)


class StreamMixer:
    """Mixes `<stdout>` and `<stderr>` streams.

    The result is available in the ``output`` attribute.

    .. versionadded:: 8.2
    """

    def __init__(self) -> None:
        self.output: io.BytesIO = io.BytesIO()
        self.stdout: io.BytesIO = BytesIOCopy(copy_to=self.output)
        self.stderr: io.BytesIO = BytesIOCopy(copy_to=self.output)


class _NamedTextIOWrapper(io.TextIOWrapper):
    def __init__(
        self, buffer: t.BinaryIO, name: str, mode: str, **kwargs: t.Any
    ) -> None:
        super().__init__(buffer, **kwargs)
        self._name = name
        self._mode = mode

    @property
    def name(self) -> str:
        return self._name

    @property
    def mode(self) -> str:
        return self._mode

    def __next__(self) -> str:  # type: ignore
        try:
            line = super().__next__()
        except StopIteration as e:
            raise EOFError() from e
        return line


def make_input_stream(
    input: str | bytes | t.IO[t.Any] | None, charset: str
) -> t.BinaryIO:
    # Is already an input stream.
    if hasattr(input, "read"):
        rv = _find_binary_reader(t.cast("t.IO[t.Any]", input))

        if rv is not None:
            return rv

        raise TypeError("Could not find binary reader for input stream.")

    if input is None:
        input = b""
    elif isinstance(input, str):
        input = input.encode(charset)

    return io.BytesIO(input)


class Result:
    """Holds the captured result of an invoked CLI script.

    :param runner: The runner that created the result
    :param stdout_bytes: The standard output as bytes.
    :param stderr_bytes: The standard error as bytes.
    :param output_bytes: A mix of ``stdout_bytes`` and ``stderr_bytes``, as the
        user would see  it in its terminal.
    :param return_value: The value returned from the invoked command.
    :param exit_code: The exit code as integer.
    :param exception: The exception that happened if one did.
    :param exc_info: Exception information (exception type, exception instance,
        traceback type).

    .. versionchanged:: 8.2
        ``stderr_bytes`` no longer optional, ``output_bytes`` introduced and
        ``mix_stderr`` has been removed.

    .. versionadded:: 8.0
        Added ``return_value``.
    """

    def __init__(
        self,
        runner: CliRunner,
        stdout_bytes: bytes,
        stderr_bytes: bytes,
        output_bytes: bytes,
        return_value: t.Any,
        exit_code: int,
        exception: BaseException | None,
        exc_info: tuple[type[BaseException], BaseException, TracebackType]
        | None = None,
    ):
        self.runner = runner
        self.stdout_bytes = stdout_bytes
        self.stderr_bytes = stderr_bytes
        self.output_bytes = output_bytes
        self.return_value = return_value
        self.exit_code = exit_code
        self.exception = exception
        self.exc_info = exc_info

    @property
    def output(self) -> str:
        """The terminal output as unicode string, as the user would see it.

        .. versionchanged:: 8.2
            No longer a proxy for ``self.stdout``. Now has its own independent stream
            that is mixing `<stdout>` and `<stderr>`, in the order they were written.
        """
        return self.output_bytes.decode(self.runner.charset, "replace").replace(
            "\r\n", "\n"
        )

    @property
    def stdout(self) -> str:
        """The standard output as unicode string."""
        return self.stdout_bytes.decode(self.runner.charset, "replace").replace(
            "\r\n", "\n"
        )

    @property
    def stderr(self) -> str:
        """The standard error as unicode string.

        .. versionchanged:: 8.2
            No longer raise an exception, always returns the `<stderr>` string.
        """
        return self.stderr_bytes.decode(self.runner.charset, "replace").replace(
            "\r\n", "\n"
        )

    def __repr__(self) -> str:
        exc_str = repr(self.exception) if self.exception else "okay"
        return f"<{type(self).__name__} {exc_str}>"


class CliRunner:
    """The CLI runner provides functionality to invoke a Click command line
    script for unittesting purposes in a isolated environment.  This only
    works in single-threaded systems without any concurrency as it changes the
    global interpreter state.

    :param charset: the character set for the input and output data.
    :param env: a dictionary with environment variables for overriding.
    :param echo_stdin: if this is set to `True`, then reading from `<stdin>` writes
                       to `<stdout>`.  This is useful for showing examples in
                       some circumstances.  Note that regular prompts
                       will automatically echo the input.
    :param catch_exceptions: Whether to catch any exceptions other than
                             ``SystemExit`` when running :meth:`~CliRunner.invoke`.

    .. versionchanged:: 8.2
        Added the ``catch_exceptions`` parameter.

    .. versionchanged:: 8.2
        ``mix_stderr`` parameter has been removed.
    """

    def __init__(
        self,
        charset: str = "utf-8",
        env: cabc.Mapping[str, str | None] | None = None,
        echo_stdin: bool = False,
        catch_exceptions: bool = True,
    ) -> None:
        self.charset = charset
        self.env: cabc.Mapping[str, str | None] = env or {}
        self.echo_stdin = echo_stdin
        self.catch_exceptions = catch_exceptions

    def get_default_prog_name(self, cli: Command) -> str:
        """Given a command object it will return the default program name
        for it.  The default is the `name` attribute or ``"root"`` if not
        set.
        """
        return cli.name or "root"

    def make_env(
        self, overrides: cabc.Mapping[str, str | None] | None = None
    ) -> cabc.Mapping[str, str | None]:
        """Returns the environment overrides for invoking a script."""
        rv = dict(self.env)
        if overrides:
            rv.update(overrides)
        return rv

    @contextlib.contextmanager
    def isolation(
        self,
        input: str | bytes | t.IO[t.Any] | None = None,
        env: cabc.Mapping[str, str | None] | None = None,
        color: bool = False,
    ) -> cabc.Iterator[tuple[io.BytesIO, io.BytesIO, io.BytesIO]]:
        """A context manager that sets up the isolation for invoking of a
        command line tool.  This sets up `<stdin>` with the given input data
        and `os.environ` with the overrides from the given dictionary.
        This also rebinds some internals in Click to be mocked (like the
        prompt functionality).

        This is automatically done in the :meth:`invoke` method.

        :param input: the input stream to put into `sys.stdin`.
        :param env: the environment overrides as dictionary.
        :param color: whether the output should contain color codes. The
                      application can still override this explicitly.

        .. versionadded:: 8.2
            An additional output stream is returned, which is a mix of
            `<stdout>` and `<stderr>` streams.

        .. versionchanged:: 8.2
            Always returns the `<stderr>` stream.

        .. versionchanged:: 8.0
            `<stderr>` is opened with ``errors="backslashreplace"``
            instead of the default ``"strict"``.

        .. versionchanged:: 4.0
            Added the ``color`` parameter.
        """
        bytes_input = make_input_stream(input, self.charset)
        echo_input = None

        old_stdin = sys.stdin
        old_stdout = sys.stdout
        old_stderr = sys.stderr
        old_forced_width = formatting.FORCED_WIDTH
        formatting.FORCED_WIDTH = 80

        env = self.make_env(env)

        stream_mixer = StreamMixer()

        if self.echo_stdin:
            bytes_input = echo_input = t.cast(
                t.BinaryIO, EchoingStdin(bytes_input, stream_mixer.stdout)
            )

        sys.stdin = text_input = _NamedTextIOWrapper(
            bytes_input, encoding=self.charset, name="<stdin>", mode="r"
        )

        if self.echo_stdin:
            # Force unbuffered reads, otherwise TextIOWrapper reads a
            # large chunk which is echoed early.
            text_input._CHUNK_SIZE = 1  # type: ignore

        sys.stdout = _NamedTextIOWrapper(
            stream_mixer.stdout, encoding=self.charset, name="<stdout>", mode="w"
        )

        sys.stderr = _NamedTextIOWrapper(
            stream_mixer.stderr,
            encoding=self.charset,
            name="<stderr>",
            mode="w",
            errors="backslashreplace",
        )

        @_pause_echo(echo_input)  # type: ignore
        def visible_input(prompt: str | None = None) -> str:
            sys.stdout.write(prompt or "")
            val = next(text_input).rstrip("\r\n")
            sys.stdout.write(f"{val}\n")
            sys.stdout.flush()
            return val

        @_pause_echo(echo_input)  # type: ignore
        def hidden_input(prompt: str | None = None) -> str:
            sys.stdout.write(f"{prompt or ''}\n")
            sys.stdout.flush()
            return next(text_input).rstrip("\r\n")

        @_pause_echo(echo_input)  # type: ignore
        def _getchar(echo: bool) -> str:
            char = sys.stdin.read(1)

            if echo:
                sys.stdout.write(char)

            sys.stdout.flush()
            return char

        default_color = color

        def should_strip_ansi(
            stream: t.IO[t.Any] | None = None, color: bool | None = None
        ) -> bool:
            if color is None:
                return not default_color
            return not color

        old_visible_prompt_func = termui.visible_prompt_func
        old_hidden_prompt_func = termui.hidden_prompt_func
        old__getchar_func = termui._getchar
        old_should_strip_ansi = utils.should_strip_ansi  # type: ignore
        old__compat_should_strip_ansi = _compat.should_strip_ansi
        termui.visible_prompt_func = visible_input
        termui.hidden_prompt_func = hidden_input
        termui._getchar = _getchar
        utils.should_strip_ansi = should_strip_ansi  # type: ignore
        _compat.should_strip_ansi = should_strip_ansi

        old_env = {}
        try:
            for key, value in env.items():
                old_env[key] = os.environ.get(key)
                if value is None:
                    try:
                        del os.environ[key]
                    except Exception:
                        pass
                else:
                    os.environ[key] = value
            yield (stream_mixer.stdout, stream_mixer.stderr, stream_mixer.output)
        finally:
            for key, value in old_env.items():
                if value is None:
                    try:
                        del os.environ[key]
                    except Exception:
                        pass
                else:
                    os.environ[key] = value
            sys.stdout = old_stdout
            sys.stderr = old_stderr
            sys.stdin = old_stdin
            termui.visible_prompt_func = old_visible_prompt_func
            termui.hidden_prompt_func = old_hidden_prompt_func
            termui._getchar = old__getchar_func
            utils.should_strip_ansi = old_should_strip_ansi  # type: ignore
            _compat.should_strip_ansi = old__compat_should_strip_ansi
            formatting.FORCED_WIDTH = old_forced_width

    def invoke(
        self,
        cli: Command,
        args: str | cabc.Sequence[str] | None = None,
        input: str | bytes | t.IO[t.Any] | None = None,
        env: cabc.Mapping[str, str | None] | None = None,
        catch_exceptions: bool | None = None,
        color: bool = False,
        **extra: t.Any,
    ) -> Result:
        """Invokes a command in an isolated environment.  The arguments are
        forwarded directly to the command line script, the `extra` keyword
        arguments are passed to the :meth:`~clickpkg.Command.main` function of
        the command.

        This returns a :class:`Result` object.

        :param cli: the command to invoke
        :param args: the arguments to invoke. It may be given as an iterable
                     or a string. When given as string it will be interpreted
                     as a Unix shell command. More details at
                     :func:`shlex.split`.
        :param input: the input data for `sys.stdin`.
        :param env: the environment overrides.
        :param catch_exceptions: Whether to catch any other exceptions than
                                 ``SystemExit``. If :data:`None`, the value
                                 from :class:`CliRunner` is used.
        :param extra: the keyword arguments to pass to :meth:`main`.
        :param color: whether the output should contain color codes. The
                      application can still override this explicitly.

        .. versionadded:: 8.2
            The result object has the ``output_bytes`` attribute with
            the mix of ``stdout_bytes`` and ``stderr_bytes``, as the user would
            see it in its terminal.

        .. versionchanged:: 8.2
            The result object always returns the ``stderr_bytes`` stream.

        .. versionchanged:: 8.0
            The result object has the ``return_value`` attribute with
            the value returned from the invoked command.

        .. versionchanged:: 4.0
            Added the ``color`` parameter.

        .. versionchanged:: 3.0
            Added the ``catch_exceptions`` parameter.

        .. versionchanged:: 3.0
            The result object has the ``exc_info`` attribute with the
            traceback if available.
        """
        exc_info = None
        if catch_exceptions is None:
            catch_exceptions = self.catch_exceptions

        with self.isolation(input=input, env=env, color=color) as outstreams:
            return_value = None
            exception: BaseException | None = None
            exit_code = 0

            if isinstance(args, str):
                args = shlex.split(args)

            try:
                prog_name = extra.pop("prog_name")
            except KeyError:
                prog_name = self.get_default_prog_name(cli)

            try:
                return_value = cli.main(args=args or (), prog_name=prog_name, **extra)
            except SystemExit as e:
                exc_info = sys.exc_info()
                e_code = t.cast("int | t.Any | None", e.code)

                if e_code is None:
                    e_code = 0

                if e_code != 0:
                    exception = e

                if not isinstance(e_code, int):
                    sys.stdout.write(str(e_code))
                    sys.stdout.write("\n")
                    e_code = 1

                exit_code = e_code

            except Exception as e:
                if not catch_exceptions:
                    raise
                exception = e
                exit_code = 1
                exc_info = sys.exc_info()
            finally:
                sys.stdout.flush()
                sys.stderr.flush()
                stdout = outstreams[0].getvalue()
                stderr = outstreams[1].getvalue()
                output = outstreams[2].getvalue()

        return Result(
            runner=self,
            stdout_bytes=stdout,
            stderr_bytes=stderr,
            output_bytes=output,
            return_value=return_value,
            exit_code=exit_code,
            exception=exception,
            exc_info=exc_info,  # type: ignore
        )

    @contextlib.contextmanager
    def isolated_filesystem(
        self, temp_dir: str | os.PathLike[str] | None = None
    ) -> cabc.Iterator[str]:
        """A context manager that creates a temporary directory and
        changes the current working directory to it. This isolates tests
        that affect the contents of the CWD to prevent them from
        interfering with each other.

        :param temp_dir: Create the temporary directory under this
            directory. If given, the created directory is not removed
            when exiting.

        .. versionchanged:: 8.0
            Added the ``temp_dir`` parameter.
        """
        cwd = os.getcwd()
        dt = tempfile.mkdtemp(dir=temp_dir)
        os.chdir(dt)

        try:
            yield dt
        finally:
            os.chdir(cwd)

            if temp_dir is None:
                try:
                    shutil.rmtree(dt)
                except OSError:
                    pass
