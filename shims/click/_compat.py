from __future__ import annotations

import codecs
import collections.abc as cabc
import io
import os
import re
import sys
import typing as t
from types import TracebackType
from weakref import WeakKeyDictionary

CYGWIN = sys.platform.startswith("cygwin")
WIN = sys.platform.startswith("win")
auto_wrap_for_ansi: t.Callable[[t.TextIO], t.TextIO] | None = None
_ansi_re = re.compile(r"\033\[[;?0-9]*[a-zA-Z]")


def _make_text_stream(
    stream: t.BinaryIO,
    encoding: str | None,
    errors: str | None,
    force_readable: bool = False,
    force_writable: bool = False,
) -> t.TextIO:
    if encoding is None:
        encoding = get_best_encoding(stream)
    if errors is None:
        errors = "replace"
    return _NonClosingTextIOWrapper(
        stream,
        encoding,
        errors,
        line_buffering=True,
        force_readable=force_readable,
        force_writable=force_writable,
    )


def is_ascii_encoding(encoding: str) -> bool:
    """Checks if a given encoding is ascii."""
    try:
        return codecs.lookup(encoding).name == "ascii"
    except LookupError:
        return False


def get_best_encoding(stream: t.IO[t.Any]) -> str:
    """Returns the default stream encoding if not found."""
    rv = getattr(stream, "encoding", None) or sys.getdefaultencoding()
    if is_ascii_encoding(rv):
        return "utf-8"
    return rv


class _NonClosingTextIOWrapper(io.TextIOWrapper):
    def __init__(
        self,
        stream: t.BinaryIO,
        encoding: str | None,
        errors: str | None,
        force_readable: bool = False,
        force_writable: bool = False,
        **extra: t.Any,
    ) -> None:
        self._stream = stream = t.cast(
            t.BinaryIO, _FixupStream(stream, force_readable, force_writable)
        )
        super().__init__(stream, encoding, errors, **extra)

    def __del__(self) -> None:
        try:
            self.detach()
        except Exception:
            pass

    def isatty(self) -> bool:
        # https://bitbucket.org/pypy/pypy/issue/1803
        return self._stream.isatty()


class _FixupStream:
    """The new io interface needs more from streams than streams
    traditionally implement.  As such, this fix-up code is necessary in
    some circumstances.

    The forcing of readable and writable flags are there because some tools
    put badly patched objects on sys (one such offender are certain version
    of jupyter notebook).
    """

    def __init__(
        self,
        stream: t.BinaryIO,
        force_readable: bool = False,
        force_writable: bool = False,
    ):
        self._stream = stream
        self._force_readable = force_readable
        self._force_writable = force_writable

    def __getattr__(self, name: str) -> t.Any:
        return getattr(self._stream, name)

    def read1(self, size: int) -> bytes:
        f = getattr(self._stream, "read1", None)

        if f is not None:
            return t.cast(bytes, f(size))

        return self._stream.read(size)

    def readable(self) -> bool:
        if self._force_readable:
            return True
        x = getattr(self._stream, "readable", None)
        if x is not None:
            return t.cast(bool, x())
        try:
            self._stream.read(0)
        except Exception:
            return False
        return True

    def writable(self) -> bool:
        if self._force_writable:
            return True
        x = getattr(self._stream, "writable", None)
        if x is not None:
            return t.cast(bool, x())
        try:
            self._stream.write(b"")
        except Exception:
            try:
                self._stream.write(b"")
            except Exception:
                return False
        return True

    def seekable(self) -> bool:
        x = getattr(self._stream, "seekable", None)
        if x is not None:
            return t.cast(bool, x())
        try:
            self._stream.seek(self._stream.tell())
        except Exception:
            return False
        return True


def _is_binary_reader(stream: t.IO[t.Any], default: bool = False) -> bool:
    try:
        return isinstance(stream.read(0), bytes)
    except Exception:
        return default
        # This happens in some cases where the stream was already
        # closed.  In this case, we assume the default.


def _is_binary_writer(stream: t.IO[t.Any], default: bool = False) -> bool:
    try:
        stream.write(b"")
    except Exception:
        try:
            stream.write("")
            return False
        except Exception:
            pass
        return default
    return True


def _find_binary_reader(stream: t.IO[t.Any]) -> t.BinaryIO | None:
    # We need to figure out if the given stream is already binary.
    # This can happen because the official docs recommend detaching
    # the streams to get binary streams.  Some code might do this, so
    # we need to deal with this case explicitly.
    if _is_binary_reader(stream, False):
        return t.cast(t.BinaryIO, stream)

    buf = getattr(stream, "buffer", None)

    # Same situation here; this time we assume that the buffer is
    # actually binary in case it's closed.
    if buf is not None and _is_binary_reader(buf, True):
        return t.cast(t.BinaryIO, buf)

    return None


def _find_binary_writer(stream: t.IO[t.Any]) -> t.BinaryIO | None:
    # We need to figure out if the given stream is already binary.
    # This can happen because the official docs recommend detaching
    # the streams to get binary streams.  Some code might do this, so
    # we need to deal with this case explicitly.
    if _is_binary_writer(stream, False):
        return t.cast(t.BinaryIO, stream)

    buf = getattr(stream, "buffer", None)

    # Same situation here; this time we assume that the buffer is
    # actually binary in case it's closed.
    if buf is not None and _is_binary_writer(buf, True):
        return t.cast(t.BinaryIO, buf)

    return None


def _stream_is_misconfigured(stream: t.TextIO) -> bool:
    """A stream is misconfigured if its encoding is ASCII."""
    # If the stream does not have an encoding set, we assume it's set
    # to ASCII.  This appears to happen in certain unittest
    # environments.  It's not quite clear what the correct behavior is
    # but this at least will force Click to recover somehow.
    return is_ascii_encoding(getattr(stream, "encoding", None) or "ascii")


def _is_compat_stream_attr(stream: t.TextIO, attr: str, value: str | None) -> bool:
    """A stream attribute is compatible if it is equal to the
    desired value or the desired value is unset and the attribute
    has a value.
    """
    stream_value = getattr(stream, attr, None)
    return stream_value == value or (value is None and stream_value is not None)


def _is_compatible_text_stream(
    stream: t.TextIO, encoding: str | None, errors: str | None
) -> bool:
    """Check if a stream's encoding and errors attributes are
    compatible with the desired values.
    """
    return _is_compat_stream_attr(
        stream, "encoding", encoding
    ) and _is_compat_stream_attr(stream, "errors", errors)


def _force_correct_text_stream(
    text_stream: t.IO[t.Any],
    encoding: str | None,
    errors: str | None,
    is_binary: t.Callable[[t.IO[t.Any], bool], bool],
    find_binary: t.Callable[[t.IO[t.Any]], t.BinaryIO | None],
    force_readable: bool = False,
    force_writable: bool = False,
) -> t.TextIO:
    if is_binary(text_stream, False):
        binary_reader = t.cast(t.BinaryIO, text_stream)
    else:
        text_stream = t.cast(t.TextIO, text_stream)
        # If the stream looks compatible, and won't default to a
        # misconfigured ascii encoding, return it as-is.
        if _is_compatible_text_stream(text_stream, encoding, errors) and not (
            encoding is None and _stream_is_misconfigured(text_stream)
        ):
            return text_stream

        # Otherwise, get the underlying binary reader.
        possible_binary_reader = find_binary(text_stream)

        # If that's not possible, silently use the original reader
        # and get mojibake instead of exceptions.
        if possible_binary_reader is None:
            return text_stream

        binary_reader = possible_binary_reader

    # Default errors to replace instead of strict in order to get
    # something that works.
    if errors is None:
        errors = "replace"

    # Wrap the binary stream in a text stream with the correct
    # encoding parameters.
    return _make_text_stream(
        binary_reader,
        encoding,
        errors,
        force_readable=force_readable,
        force_writable=force_writable,
    )


def _force_correct_text_reader(
    text_reader: t.IO[t.Any],
    encoding: str | None,
    errors: str | None,
    force_readable: bool = False,
) -> t.TextIO:
    return _force_correct_text_stream(
        text_reader,
        encoding,
        errors,
        _is_binary_reader,
        _find_binary_reader,
        force_readable=force_readable,
    )


def _force_correct_text_writer(
    text_writer: t.IO[t.Any],
    encoding: str | None,
    errors: str | None,
    force_writable: bool = False,
) -> t.TextIO:
    return _force_correct_text_stream(
        text_writer,
        encoding,
        errors,
        _is_binary_writer,
        _find_binary_writer,
        force_writable=force_writable,
    )


def get_binary_stdin() -> t.BinaryIO:
    reader = _find_binary_reader(sys.stdin)
    if reader is None:
        raise RuntimeError("Was not able to determine binary stream for sys.stdin.")
    return reader


def get_binary_stdout() -> t.BinaryIO:
    writer = _find_binary_writer(sys.stdout)
    if writer is None:
        raise RuntimeError("Was not able to determine binary stream for sys.stdout.")
    return writer


def get_binary_stderr() -> t.BinaryIO:
    writer = _find_binary_writer(sys.stderr)
    if writer is None:
        raise RuntimeError("Was not able to determine binary stream for sys.stderr.")
    return writer


def get_text_stdin(encoding: str | None = None, errors: str | None = None) -> t.TextIO:
    rv = _get_windows_console_stream(sys.stdin, encoding, errors)
    if rv is not None:
        return rv
    return _force_correct_text_reader(sys.stdin, encoding, errors, force_readable=True)


def get_text_stdout(encoding: str | None = None, errors: str | None = None) -> t.TextIO:
    rv = _get_windows_console_stream(sys.stdout, encoding, errors)
    if rv is not None:
        return rv
    return _force_correct_text_writer(sys.stdout, encoding, errors, force_writable=True)


def get_text_stderr(encoding: str | None = None, errors: str | None = None) -> t.TextIO:
    rv = _get_windows_console_stream(sys.stderr, encoding, errors)
    if rv is not None:
        return rv
    return _force_correct_text_writer(sys.stderr, encoding, errors, force_writable=True)


def _wrap_io_open(
    file: str | os.PathLike[str] | int,
    mode: str,
    encoding: str | None,
    errors: str | None,
) -> t.IO[t.Any]:
    """Handles not passing ``encoding`` and ``errors`` in binary mode."""
    if "b" in mode:
        return open(file, mode)

    return open(file, mode, encoding=encoding, errors=errors)


def open_stream(
    filename: str | os.PathLike[str],
    mode: str = "r",
    encoding: str | None = None,
    errors: str | None = "strict",
    atomic: bool = False,
) -> tuple[t.IO[t.Any], bool]:
    binary = "b" in mode
    filename = os.fspath(filename)

    # Standard streams first. These are simple because they ignore the
    # atomic flag. Use fsdecode to handle Path("-").
    if os.fsdecode(filename) == "-":
        if any(m in mode for m in ["w", "a", "x"]):
            if binary:
                return get_binary_stdout(), False
            return get_text_stdout(encoding=encoding, errors=errors), False
        if binary:
            return get_binary_stdin(), False
        return get_text_stdin(encoding=encoding, errors=errors), False

    # Non-atomic writes directly go out through the regular open functions.
    if not atomic:
        return _wrap_io_open(filename, mode, encoding, errors), True

    # Some usability stuff for atomic writes
    if "a" in mode:
        raise ValueError(
            "Appending to an existing file is not supported, because that"
            " would involve an expensive `copy`-operation to a temporary"
            " file. Open the file in normal `w`-mode and copy explicitly"
            " if that's what you're after."
        )
    if "x" in mode:
        raise ValueError("Use the `overwrite`-parameter instead.")
    if "w" not in mode:
        raise ValueError("Atomic writes only make sense with `w`-mode.")

    # Atomic writes are more complicated.  They work by opening a file
    # as a proxy in the same folder and then using the fdopen
    # functionality to wrap it in a Python file.  Then we wrap it in an
    # atomic file that moves the file over on close.
    import errno
    import random

    try:
        perm: int | None = os.stat(filename).st_mode
    except OSError:
        perm = None

    flags = os.O_RDWR | os.O_CREAT | os.O_EXCL

    if binary:
        flags |= getattr(os, "O_BINARY", 0)

    while True:
        tmp_filename = os.path.join(
            os.path.dirname(filename),
            f".__atomic-write{random.randrange(1 << 32):08x}",
        )
        try:
            fd = os.open(tmp_filename, flags, 0o666 if perm is None else perm)
            break
        except OSError as e:
            if e.errno == errno.EEXIST or (
                os.name == "nt"
                and e.errno == errno.EACCES
                and os.path.isdir(e.filename)
                and os.access(e.filename, os.W_OK)
            ):
                continue
            raise

    if perm is not None:
        os.chmod(tmp_filename, perm)  # in case perm includes bits in umask

    f = _wrap_io_open(fd, mode, encoding, errors)
    af = _AtomicFile(f, tmp_filename, os.path.realpath(filename))
    return t.cast(t.IO[t.Any], af), True


class _AtomicFile:
    def __init__(self, f: t.IO[t.Any], tmp_filename: str, real_filename: str) -> None:
        self._f = f
        self._tmp_filename = tmp_filename
        self._real_filename = real_filename
        self.closed = False

    @property
    def name(self) -> str:
        return self._real_filename

    def close(self, delete: bool = False) -> None:
        if self.closed:
            return
        self._f.close()
        os.replace(self._tmp_filename, self._real_filename)
        self.closed = True

    def __getattr__(self, name: str) -> t.Any:
        return getattr(self._f, name)

    def __enter__(self) -> _AtomicFile:
        return self

    def __exit__(
        self,
        exc_type: type[BaseException] | None,
        exc_value: BaseException | None,
        tb: TracebackType | None,
    ) -> None:
        self.close(delete=exc_type is not None)

    def __repr__(self) -> str:
        return repr(self._f)


def strip_ansi(value: str) -> str:
    return _ansi_re.sub("", value)


def _is_jupyter_kernel_output(stream: t.IO[t.Any]) -> bool:
    while isinstance(stream, (_FixupStream, _NonClosingTextIOWrapper)):
        stream = stream._stream

    return stream.__class__.__module__.startswith("ipykernel.")


def should_strip_ansi(
    stream: t.IO[t.Any] | None = None, color: bool | None = None
) -> bool:
    if color is None:
        if stream is None:
            stream = sys.stdin
        return not isatty(stream) and not _is_jupyter_kernel_output(stream)
    return not color


# On Windows, wrap the output streams with colorama to support ANSI
# color codes.
# NOTE: double check is needed so mypy does not analyze this on Linux
if sys.platform.startswith("win") and WIN:
    from ._winconsole import _get_windows_console_stream

    def _get_argv_encoding() -> str:
        import locale

        return locale.getpreferredencoding()

    _ansi_stream_wrappers: cabc.MutableMapping[t.TextIO, t.TextIO] = WeakKeyDictionary()

    def auto_wrap_for_ansi(stream: t.TextIO, color: bool | None = None) -> t.TextIO:
        """Support ANSI color and style codes on Windows by wrapping a
        stream with colorama.
        """
        try:
            cached = _ansi_stream_wrappers.get(stream)
        except Exception:
            cached = None

        if cached is not None:
            return cached

        import colorama

        strip = should_strip_ansi(stream, color)
        ansi_wrapper = colorama.AnsiToWin32(stream, strip=strip)
        rv = t.cast(t.TextIO, ansi_wrapper.stream)
        _write = rv.write

        def _safe_write(s: str) -> int:
            try:
                return _write(s)
            except BaseException:
                ansi_wrapper.reset_all()
                raise

        rv.write = _safe_write  # type: ignore[method-assign]

        try:
            _ansi_stream_wrappers[stream] = rv
        except Exception:
            pass

        return rv

else:

    def _get_argv_encoding() -> str:
        return getattr(sys.stdin, "encoding", None) or sys.getfilesystemencoding()

    def _get_windows_console_stream(
        f: t.TextIO, encoding: str | None, errors: str | None
    ) -> t.TextIO | None:
        return None


def term_len(x: str) -> int:
    return len(strip_ansi(x))


def isatty(stream: t.IO[t.Any]) -> bool:
    try:
        return stream.isatty()
    except Exception:
        return False


def _make_cached_stream_func(
    src_func: t.Callable[[], t.TextIO | None],
    wrapper_func: t.Callable[[], t.TextIO],
) -> t.Callable[[], t.TextIO | None]:
    cache: cabc.MutableMapping[t.TextIO, t.TextIO] = WeakKeyDictionary()

    def func() -> t.TextIO | None:
        stream = src_func()

        if stream is None:
            return None

        try:
            rv = cache.get(stream)
        except Exception:
            rv = None
        if rv is not None:
            return rv
        rv = wrapper_func()
        try:
            cache[stream] = rv
        except Exception:
            pass
        return rv

    return func


_default_text_stdin = _make_cached_stream_func(lambda: sys.stdin, get_text_stdin)
_default_text_stdout = _make_cached_stream_func(lambda: sys.stdout, get_text_stdout)
_default_text_stderr = _make_cached_stream_func(lambda: sys.stderr, get_text_stderr)


binary_streams: cabc.Mapping[str, t.Callable[[], t.BinaryIO]] = {
    "stdin": get_binary_stdin,
    "stdout": get_binary_stdout,
    "stderr": get_binary_stderr,
}

text_streams: cabc.Mapping[str, t.Callable[[str | None, str | None], t.TextIO]] = {
    "stdin": get_text_stdin,
    "stdout": get_text_stdout,
    "stderr": get_text_stderr,
}
