# This module is based on the excellent work by Adam Bartoš who
# provided a lot of what went into the implementation here in
# the discussion to issue1602 in the Python bug tracker.
#
# There are some general differences in regards to how this works
# compared to the original patches as we do not need to patch
# the entire interpreter but just work in our little world of
# echo and prompt.
from __future__ import annotations

import collections.abc as cabc
import io
import sys
import time
import typing as t
from ctypes import Array
from ctypes import byref
from ctypes import c_char
from ctypes import c_char_p
from ctypes import c_int
from ctypes import c_ssize_t
from ctypes import c_ulong
from ctypes import c_void_p
from ctypes import POINTER
from ctypes import py_object
from ctypes import Structure
from ctypes.wintypes import DWORD
from ctypes.wintypes import HANDLE
from ctypes.wintypes import LPCWSTR
from ctypes.wintypes import LPWSTR

from ._compat import _NonClosingTextIOWrapper

assert sys.platform == "win32"
import msvcrt  # noqa: E402
from ctypes import windll  # noqa: E402
from ctypes import WINFUNCTYPE  # noqa: E402

c_ssize_p = POINTER(c_ssize_t)

kernel32 = windll.kernel32
GetStdHandle = kernel32.GetStdHandle
ReadConsoleW = kernel32.ReadConsoleW
WriteConsoleW = kernel32.WriteConsoleW
GetConsoleMode = kernel32.GetConsoleMode
GetLastError = kernel32.GetLastError
GetCommandLineW = WINFUNCTYPE(LPWSTR)(("GetCommandLineW", windll.kernel32))
CommandLineToArgvW = WINFUNCTYPE(POINTER(LPWSTR), LPCWSTR, POINTER(c_int))(
    ("CommandLineToArgvW", windll.shell32)
)
LocalFree = WINFUNCTYPE(c_void_p, c_void_p)(("LocalFree", windll.kernel32))

STDIN_HANDLE = GetStdHandle(-10)
STDOUT_HANDLE = GetStdHandle(-11)
STDERR_HANDLE = GetStdHandle(-12)

PyBUF_SIMPLE = 0
PyBUF_WRITABLE = 1

ERROR_SUCCESS = 0
ERROR_NOT_ENOUGH_MEMORY = 8
ERROR_OPERATION_ABORTED = 995

STDIN_FILENO = 0
STDOUT_FILENO = 1
STDERR_FILENO = 2

EOF = b"\x1a"
MAX_BYTES_WRITTEN = 32767

if t.TYPE_CHECKING:
    try:
        # Using `typing_extensions.Buffer` instead of `collections.abc`
        # on Windows for some reason does not have `Sized` implemented.
        from collections.abc import Buffer  # type: ignore
    except ImportError:
        from typing_extensions import Buffer

try:
    from ctypes import pythonapi
except ImportError:
    # On PyPy we cannot get buffers so our ability to operate here is
    # severely limited.
    get_buffer = None
else:

    class Py_buffer(Structure):
        _fields_ = [  # noqa: RUF012
            ("buf", c_void_p),
            ("obj", py_object),
            ("len", c_ssize_t),
            ("itemsize", c_ssize_t),
            ("readonly", c_int),
            ("ndim", c_int),
            ("format", c_char_p),
            ("shape", c_ssize_p),
            ("strides", c_ssize_p),
            ("suboffsets", c_ssize_p),
            ("internal", c_void_p),
        ]

    PyObject_GetBuffer = pythonapi.PyObject_GetBuffer
    PyBuffer_Release = pythonapi.PyBuffer_Release

    def get_buffer(obj: Buffer, writable: bool = False) -> Array[c_char]:
        buf = Py_buffer()
        flags: int = PyBUF_WRITABLE if writable else PyBUF_SIMPLE
        PyObject_GetBuffer(py_object(obj), byref(buf), flags)

        try:
            buffer_type = c_char * buf.len
            out: Array[c_char] = buffer_type.from_address(buf.buf)
            return out
        finally:
            PyBuffer_Release(byref(buf))


class _WindowsConsoleRawIOBase(io.RawIOBase):
    def __init__(self, handle: int | None) -> None:
        self.handle = handle

    def isatty(self) -> t.Literal[True]:
        super().isatty()
        return True


class _WindowsConsoleReader(_WindowsConsoleRawIOBase):
    def readable(self) -> t.Literal[True]:
        return True

    def readinto(self, b: Buffer) -> int:
        bytes_to_be_read = len(b)
        if not bytes_to_be_read:
            return 0
        elif bytes_to_be_read % 2:
            raise ValueError(
                "cannot read odd number of bytes from UTF-16-LE encoded console"
            )

        buffer = get_buffer(b, writable=True)
        code_units_to_be_read = bytes_to_be_read // 2
        code_units_read = c_ulong()

        rv = ReadConsoleW(
            HANDLE(self.handle),
            buffer,
            code_units_to_be_read,
            byref(code_units_read),
            None,
        )
        if GetLastError() == ERROR_OPERATION_ABORTED:
            # wait for KeyboardInterrupt
            time.sleep(0.1)
        if not rv:
            raise OSError(f"Windows error: {GetLastError()}")

        if buffer[0] == EOF:
            return 0
        return 2 * code_units_read.value


class _WindowsConsoleWriter(_WindowsConsoleRawIOBase):
    def writable(self) -> t.Literal[True]:
        return True

    @staticmethod
    def _get_error_message(errno: int) -> str:
        if errno == ERROR_SUCCESS:
            return "ERROR_SUCCESS"
        elif errno == ERROR_NOT_ENOUGH_MEMORY:
            return "ERROR_NOT_ENOUGH_MEMORY"
        return f"Windows error {errno}"

    def write(self, b: Buffer) -> int:
        bytes_to_be_written = len(b)
        buf = get_buffer(b)
        code_units_to_be_written = min(bytes_to_be_written, MAX_BYTES_WRITTEN) // 2
        code_units_written = c_ulong()

        WriteConsoleW(
            HANDLE(self.handle),
            buf,
            code_units_to_be_written,
            byref(code_units_written),
            None,
        )
        bytes_written = 2 * code_units_written.value

        if bytes_written == 0 and bytes_to_be_written > 0:
            raise OSError(self._get_error_message(GetLastError()))
        return bytes_written


class ConsoleStream:
    def __init__(self, text_stream: t.TextIO, byte_stream: t.BinaryIO) -> None:
        self._text_stream = text_stream
        self.buffer = byte_stream

    @property
    def name(self) -> str:
        return self.buffer.name

    def write(self, x: t.AnyStr) -> int:
        if isinstance(x, str):
            return self._text_stream.write(x)
        try:
            self.flush()
        except Exception:
            pass
        return self.buffer.write(x)

    def writelines(self, lines: cabc.Iterable[t.AnyStr]) -> None:
        for line in lines:
            self.write(line)

    def __getattr__(self, name: str) -> t.Any:
        return getattr(self._text_stream, name)

    def isatty(self) -> bool:
        return self.buffer.isatty()

    def __repr__(self) -> str:
        return f"<ConsoleStream name={self.name!r} encoding={self.encoding!r}>"


def _get_text_stdin(buffer_stream: t.BinaryIO) -> t.TextIO:
    text_stream = _NonClosingTextIOWrapper(
        io.BufferedReader(_WindowsConsoleReader(STDIN_HANDLE)),
        "utf-16-le",
        "strict",
        line_buffering=True,
    )
    return t.cast(t.TextIO, ConsoleStream(text_stream, buffer_stream))


def _get_text_stdout(buffer_stream: t.BinaryIO) -> t.TextIO:
    text_stream = _NonClosingTextIOWrapper(
        io.BufferedWriter(_WindowsConsoleWriter(STDOUT_HANDLE)),
        "utf-16-le",
        "strict",
        line_buffering=True,
    )
    return t.cast(t.TextIO, ConsoleStream(text_stream, buffer_stream))


def _get_text_stderr(buffer_stream: t.BinaryIO) -> t.TextIO:
    text_stream = _NonClosingTextIOWrapper(
        io.BufferedWriter(_WindowsConsoleWriter(STDERR_HANDLE)),
        "utf-16-le",
        "strict",
        line_buffering=True,
    )
    return t.cast(t.TextIO, ConsoleStream(text_stream, buffer_stream))


_stream_factories: cabc.Mapping[int, t.Callable[[t.BinaryIO], t.TextIO]] = {
    0: _get_text_stdin,
    1: _get_text_stdout,
    2: _get_text_stderr,
}


def _is_console(f: t.TextIO) -> bool:
    if not hasattr(f, "fileno"):
        return False

    try:
        fileno = f.fileno()
    except (OSError, io.UnsupportedOperation):
        return False

    handle = msvcrt.get_osfhandle(fileno)
    return bool(GetConsoleMode(handle, byref(DWORD())))


def _get_windows_console_stream(
    f: t.TextIO, encoding: str | None, errors: str | None
) -> t.TextIO | None:
    if (
        get_buffer is None
        or encoding not in {"utf-16-le", None}
        or errors not in {"strict", None}
        or not _is_console(f)
    ):
        return None

    func = _stream_factories.get(f.fileno())
    if func is None:
        return None

    b = getattr(f, "buffer", None)

    if b is None:
        return None

    return func(b)
