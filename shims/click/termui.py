from __future__ import annotations

import collections.abc as cabc
import inspect
import io
import itertools
import sys
import typing as t
from contextlib import AbstractContextManager
from gettext import gettext as _

from ._compat import isatty
from ._compat import strip_ansi
from .exceptions import Abort
from .exceptions import UsageError
from .globals import resolve_color_default
from .types import Choice
from .types import convert_type
from .types import ParamType
from .utils import echo
from .utils import LazyFile

if t.TYPE_CHECKING:
    from ._termui_impl import ProgressBar

V = t.TypeVar("V")

# The prompt functions to use.  The doc tools currently override these
# functions to customize how they work.
visible_prompt_func: t.Callable[[str], str] = input

_ansi_colors = {
    "black": 30,
    "red": 31,
    "green": 32,
    "yellow": 33,
    "blue": 34,
    "magenta": 35,
    "cyan": 36,
    "white": 37,
    "reset": 39,
    "bright_black": 90,
    "bright_red": 91,
    "bright_green": 92,
    "bright_yellow": 93,
    "bright_blue": 94,
    "bright_magenta": 95,
    "bright_cyan": 96,
    "bright_white": 97,
}
_ansi_reset_all = "\033[0m"


def hidden_prompt_func(prompt: str) -> str:
    import getpass

    return getpass.getpass(prompt)


def _build_prompt(
    text: str,
    suffix: str,
    show_default: bool = False,
    default: t.Any | None = None,
    show_choices: bool = True,
    type: ParamType | None = None,
) -> str:
    prompt = text
    if type is not None and show_choices and isinstance(type, Choice):
        prompt += f" ({', '.join(map(str, type.choices))})"
    if default is not None and show_default:
        prompt = f"{prompt} [{_format_default(default)}]"
    return f"{prompt}{suffix}"


def _format_default(default: t.Any) -> t.Any:
    if isinstance(default, (io.IOBase, LazyFile)) and hasattr(default, "name"):
        return default.name

    return default


def prompt(
    text: str,
    default: t.Any | None = None,
    hide_input: bool = False,
    confirmation_prompt: bool | str = False,
    type: ParamType | t.Any | None = None,
    value_proc: t.Callable[[str], t.Any] | None = None,
    prompt_suffix: str = ": ",
    show_default: bool = True,
    err: bool = False,
    show_choices: bool = True,
) -> t.Any:
    """Prompts a user for input.  This is a convenience function that can
    be used to prompt a user for input later.

    If the user aborts the input by sending an interrupt signal, this
    function will catch it and raise a :exc:`Abort` exception.

    :param text: the text to show for the prompt.
    :param default: the default value to use if no input happens.  If this
                    is not given it will prompt until it's aborted.
    :param hide_input: if this is set to true then the input value will
                       be hidden.
    :param confirmation_prompt: Prompt a second time to confirm the
        value. Can be set to a string instead of ``True`` to customize
        the message.
    :param type: the type to use to check the value against.
    :param value_proc: if this parameter is provided it's a function that
                       is invoked instead of the type conversion to
                       convert a value.
    :param prompt_suffix: a suffix that should be added to the prompt.
    :param show_default: shows or hides the default value in the prompt.
    :param err: if set to true the file defaults to ``stderr`` instead of
                ``stdout``, the same as with echo.
    :param show_choices: Show or hide choices if the passed type is a Choice.
                         For example if type is a Choice of either day or week,
                         show_choices is true and text is "Group by" then the
                         prompt will be "Group by (day, week): ".

    .. versionadded:: 8.0
        ``confirmation_prompt`` can be a custom string.

    .. versionadded:: 7.0
        Added the ``show_choices`` parameter.

    .. versionadded:: 6.0
        Added unicode support for cmd.exe on Windows.

    .. versionadded:: 4.0
        Added the `err` parameter.

    """

    def prompt_func(text: str) -> str:
        f = hidden_prompt_func if hide_input else visible_prompt_func
        try:
            # Write the prompt separately so that we get nice
            # coloring through colorama on Windows
            echo(text.rstrip(" "), nl=False, err=err)
            # Echo a space to stdout to work around an issue where
            # readline causes backspace to clear the whole line.
            return f(" ")
        except (KeyboardInterrupt, EOFError):
            # getpass doesn't print a newline if the user aborts input with ^C.
            # Allegedly this behavior is inherited from getpass(3).
            # A doc bug has been filed at https://bugs.python.org/issue24711
            if hide_input:
                echo(None, err=err)
            raise Abort() from None

    if value_proc is None:
        value_proc = convert_type(type, default)

    prompt = _build_prompt(
        text, prompt_suffix, show_default, default, show_choices, type
    )

    if confirmation_prompt:
        if confirmation_prompt is True:
            confirmation_prompt = _("Repeat for confirmation")

        confirmation_prompt = _build_prompt(confirmation_prompt, prompt_suffix)

    while True:
        while True:
            value = prompt_func(prompt)
            if value:
                break
            elif default is not None:
                value = default
                break
        try:
            result = value_proc(value)
        except UsageError as e:
            if hide_input:
                echo(_("Error: The value you entered was invalid."), err=err)
            else:
                echo(_("Error: {e.message}").format(e=e), err=err)
            continue
        if not confirmation_prompt:
            return result
        while True:
            value2 = prompt_func(confirmation_prompt)
            is_empty = not value and not value2
            if value2 or is_empty:
                break
        if value == value2:
            return result
        echo(_("Error: The two entered values do not match."), err=err)


def confirm(
    text: str,
    default: bool | None = False,
    abort: bool = False,
    prompt_suffix: str = ": ",
    show_default: bool = True,
    err: bool = False,
) -> bool:
    """Prompts for confirmation (yes/no question).

    If the user aborts the input by sending a interrupt signal this
    function will catch it and raise a :exc:`Abort` exception.

    :param text: the question to ask.
    :param default: The default value to use when no input is given. If
        ``None``, repeat until input is given.
    :param abort: if this is set to `True` a negative answer aborts the
                  exception by raising :exc:`Abort`.
    :param prompt_suffix: a suffix that should be added to the prompt.
    :param show_default: shows or hides the default value in the prompt.
    :param err: if set to true the file defaults to ``stderr`` instead of
                ``stdout``, the same as with echo.

    .. versionchanged:: 8.0
        Repeat until input is given if ``default`` is ``None``.

    .. versionadded:: 4.0
        Added the ``err`` parameter.
    """
    prompt = _build_prompt(
        text,
        prompt_suffix,
        show_default,
        "y/n" if default is None else ("Y/n" if default else "y/N"),
    )

    while True:
        try:
            # Write the prompt separately so that we get nice
            # coloring through colorama on Windows
            echo(prompt.rstrip(" "), nl=False, err=err)
            # Echo a space to stdout to work around an issue where
            # readline causes backspace to clear the whole line.
            value = visible_prompt_func(" ").lower().strip()
        except (KeyboardInterrupt, EOFError):
            raise Abort() from None
        if value in ("y", "yes"):
            rv = True
        elif value in ("n", "no"):
            rv = False
        elif default is not None and value == "":
            rv = default
        else:
            echo(_("Error: invalid input"), err=err)
            continue
        break
    if abort and not rv:
        raise Abort()
    return rv


def echo_via_pager(
    text_or_generator: cabc.Iterable[str] | t.Callable[[], cabc.Iterable[str]] | str,
    color: bool | None = None,
) -> None:
    """This function takes a text and shows it via an environment specific
    pager on stdout.

    .. versionchanged:: 3.0
       Added the `color` flag.

    :param text_or_generator: the text to page, or alternatively, a
                              generator emitting the text to page.
    :param color: controls if the pager supports ANSI colors or not.  The
                  default is autodetection.
    """
    color = resolve_color_default(color)

    if inspect.isgeneratorfunction(text_or_generator):
        i = t.cast("t.Callable[[], cabc.Iterable[str]]", text_or_generator)()
    elif isinstance(text_or_generator, str):
        i = [text_or_generator]
    else:
        i = iter(t.cast("cabc.Iterable[str]", text_or_generator))

    # convert every element of i to a text type if necessary
    text_generator = (el if isinstance(el, str) else str(el) for el in i)

    from ._termui_impl import pager

    return pager(itertools.chain(text_generator, "\n"), color)


@t.overload
def progressbar(
    *,
    length: int,
    label: str | None = None,
    hidden: bool = False,
    show_eta: bool = True,
    show_percent: bool | None = None,
    show_pos: bool = False,
    fill_char: str = "#",
    empty_char: str = "-",
    bar_template: str = "%(label)s  [%(bar)s]  %(info)s",
    info_sep: str = "  ",
    width: int = 36,
    file: t.TextIO | None = None,
    color: bool | None = None,
    update_min_steps: int = 1,
) -> ProgressBar[int]: ...


@t.overload
def progressbar(
    iterable: cabc.Iterable[V] | None = None,
    length: int | None = None,
    label: str | None = None,
    hidden: bool = False,
    show_eta: bool = True,
    show_percent: bool | None = None,
    show_pos: bool = False,
    item_show_func: t.Callable[[V | None], str | None] | None = None,
    fill_char: str = "#",
    empty_char: str = "-",
    bar_template: str = "%(label)s  [%(bar)s]  %(info)s",
    info_sep: str = "  ",
    width: int = 36,
    file: t.TextIO | None = None,
    color: bool | None = None,
    update_min_steps: int = 1,
) -> ProgressBar[V]: ...


def progressbar(
    iterable: cabc.Iterable[V] | None = None,
    length: int | None = None,
    label: str | None = None,
    hidden: bool = False,
    show_eta: bool = True,
    show_percent: bool | None = None,
    show_pos: bool = False,
    item_show_func: t.Callable[[V | None], str | None] | None = None,
    fill_char: str = "#",
    empty_char: str = "-",
    bar_template: str = "%(label)s  [%(bar)s]  %(info)s",
    info_sep: str = "  ",
    width: int = 36,
    file: t.TextIO | None = None,
    color: bool | None = None,
    update_min_steps: int = 1,
) -> ProgressBar[V]:
    """This function creates an iterable context manager that can be used
    to iterate over something while showing a progress bar.  It will
    either iterate over the `iterable` or `length` items (that are counted
    up).  While iteration happens, this function will print a rendered
    progress bar to the given `file` (defaults to stdout) and will attempt
    to calculate remaining time and more.  By default, this progress bar
    will not be rendered if the file is not a terminal.

    The context manager creates the progress bar.  When the context
    manager is entered the progress bar is already created.  With every
    iteration over the progress bar, the iterable passed to the bar is
    advanced and the bar is updated.  When the context manager exits,
    a newline is printed and the progress bar is finalized on screen.

    Note: The progress bar is currently designed for use cases where the
    total progress can be expected to take at least several seconds.
    Because of this, the ProgressBar class object won't display
    progress that is considered too fast, and progress where the time
    between steps is less than a second.

    No printing must happen or the progress bar will be unintentionally
    destroyed.

    Example usage::

        with progressbar(items) as bar:
            for item in bar:
                do_something_with(item)

    Alternatively, if no iterable is specified, one can manually update the
    progress bar through the `update()` method instead of directly
    iterating over the progress bar.  The update method accepts the number
    of steps to increment the bar with::

        with progressbar(length=chunks.total_bytes) as bar:
            for chunk in chunks:
                process_chunk(chunk)
                bar.update(chunks.bytes)

    The ``update()`` method also takes an optional value specifying the
    ``current_item`` at the new position. This is useful when used
    together with ``item_show_func`` to customize the output for each
    manual step::

        with click.progressbar(
            length=total_size,
            label='Unzipping archive',
            item_show_func=lambda a: a.filename
        ) as bar:
            for archive in zip_file:
                archive.extract()
                bar.update(archive.size, archive)

    :param iterable: an iterable to iterate over.  If not provided the length
                     is required.
    :param length: the number of items to iterate over.  By default the
                   progressbar will attempt to ask the iterator about its
                   length, which might or might not work.  If an iterable is
                   also provided this parameter can be used to override the
                   length.  If an iterable is not provided the progress bar
                   will iterate over a range of that length.
    :param label: the label to show next to the progress bar.
    :param hidden: hide the progressbar. Defaults to ``False``. When no tty is
        detected, it will only print the progressbar label. Setting this to
        ``False`` also disables that.
    :param show_eta: enables or disables the estimated time display.  This is
                     automatically disabled if the length cannot be
                     determined.
    :param show_percent: enables or disables the percentage display.  The
                         default is `True` if the iterable has a length or
                         `False` if not.
    :param show_pos: enables or disables the absolute position display.  The
                     default is `False`.
    :param item_show_func: A function called with the current item which
        can return a string to show next to the progress bar. If the
        function returns ``None`` nothing is shown. The current item can
        be ``None``, such as when entering and exiting the bar.
    :param fill_char: the character to use to show the filled part of the
                      progress bar.
    :param empty_char: the character to use to show the non-filled part of
                       the progress bar.
    :param bar_template: the format string to use as template for the bar.
                         The parameters in it are ``label`` for the label,
                         ``bar`` for the progress bar and ``info`` for the
                         info section.
    :param info_sep: the separator between multiple info items (eta etc.)
    :param width: the width of the progress bar in characters, 0 means full
                  terminal width
    :param file: The file to write to. If this is not a terminal then
        only the label is printed.
    :param color: controls if the terminal supports ANSI colors or not.  The
                  default is autodetection.  This is only needed if ANSI
                  codes are included anywhere in the progress bar output
                  which is not the case by default.
    :param update_min_steps: Render only when this many updates have
        completed. This allows tuning for very fast iterators.

    .. versionadded:: 8.2
        The ``hidden`` argument.

    .. versionchanged:: 8.0
        Output is shown even if execution time is less than 0.5 seconds.

    .. versionchanged:: 8.0
        ``item_show_func`` shows the current item, not the previous one.

    .. versionchanged:: 8.0
        Labels are echoed if the output is not a TTY. Reverts a change
        in 7.0 that removed all output.

    .. versionadded:: 8.0
       The ``update_min_steps`` parameter.

    .. versionadded:: 4.0
        The ``color`` parameter and ``update`` method.

    .. versionadded:: 2.0
    """
    from ._termui_impl import ProgressBar

    color = resolve_color_default(color)
    return ProgressBar(
        iterable=iterable,
        length=length,
        hidden=hidden,
        show_eta=show_eta,
        show_percent=show_percent,
        show_pos=show_pos,
        item_show_func=item_show_func,
        fill_char=fill_char,
        empty_char=empty_char,
        bar_template=bar_template,
        info_sep=info_sep,
        file=file,
        label=label,
        width=width,
        color=color,
        update_min_steps=update_min_steps,
    )


def clear() -> None:
    """Clears the terminal screen.  This will have the effect of clearing
    the whole visible space of the terminal and moving the cursor to the
    top left.  This does not do anything if not connected to a terminal.

    .. versionadded:: 2.0
    """
    if not isatty(sys.stdout):
        return

    # ANSI escape \033[2J clears the screen, \033[1;1H moves the cursor
    echo("\033[2J\033[1;1H", nl=False)


def _interpret_color(color: int | tuple[int, int, int] | str, offset: int = 0) -> str:
    if isinstance(color, int):
        return f"{38 + offset};5;{color:d}"

    if isinstance(color, (tuple, list)):
        r, g, b = color
        return f"{38 + offset};2;{r:d};{g:d};{b:d}"

    return str(_ansi_colors[color] + offset)


def style(
    text: t.Any,
    fg: int | tuple[int, int, int] | str | None = None,
    bg: int | tuple[int, int, int] | str | None = None,
    bold: bool | None = None,
    dim: bool | None = None,
    underline: bool | None = None,
    overline: bool | None = None,
    italic: bool | None = None,
    blink: bool | None = None,
    reverse: bool | None = None,
    strikethrough: bool | None = None,
    reset: bool = True,
) -> str:
    """Styles a text with ANSI styles and returns the new string.  By
    default the styling is self contained which means that at the end
    of the string a reset code is issued.  This can be prevented by
    passing ``reset=False``.

    Examples::

        click.echo(click.style('Hello World!', fg='green'))
        click.echo(click.style('ATTENTION!', blink=True))
        click.echo(click.style('Some things', reverse=True, fg='cyan'))
        click.echo(click.style('More colors', fg=(255, 12, 128), bg=117))

    Supported color names:

    * ``black`` (might be a gray)
    * ``red``
    * ``green``
    * ``yellow`` (might be an orange)
    * ``blue``
    * ``magenta``
    * ``cyan``
    * ``white`` (might be light gray)
    * ``bright_black``
    * ``bright_red``
    * ``bright_green``
    * ``bright_yellow``
    * ``bright_blue``
    * ``bright_magenta``
    * ``bright_cyan``
    * ``bright_white``
    * ``reset`` (reset the color code only)

    If the terminal supports it, color may also be specified as:

    -   An integer in the interval [0, 255]. The terminal must support
        8-bit/256-color mode.
    -   An RGB tuple of three integers in [0, 255]. The terminal must
        support 24-bit/true-color mode.

    See https://en.wikipedia.org/wiki/ANSI_color and
    https://gist.github.com/XVilka/8346728 for more information.

    :param text: the string to style with ansi codes.
    :param fg: if provided this will become the foreground color.
    :param bg: if provided this will become the background color.
    :param bold: if provided this will enable or disable bold mode.
    :param dim: if provided this will enable or disable dim mode.  This is
                badly supported.
    :param underline: if provided this will enable or disable underline.
    :param overline: if provided this will enable or disable overline.
    :param italic: if provided this will enable or disable italic.
    :param blink: if provided this will enable or disable blinking.
    :param reverse: if provided this will enable or disable inverse
                    rendering (foreground becomes background and the
                    other way round).
    :param strikethrough: if provided this will enable or disable
        striking through text.
    :param reset: by default a reset-all code is added at the end of the
                  string which means that styles do not carry over.  This
                  can be disabled to compose styles.

    .. versionchanged:: 8.0
        A non-string ``message`` is converted to a string.

    .. versionchanged:: 8.0
       Added support for 256 and RGB color codes.

    .. versionchanged:: 8.0
        Added the ``strikethrough``, ``italic``, and ``overline``
        parameters.

    .. versionchanged:: 7.0
        Added support for bright colors.

    .. versionadded:: 2.0
    """
    if not isinstance(text, str):
        text = str(text)

    bits = []

    if fg:
        try:
            bits.append(f"\033[{_interpret_color(fg)}m")
        except KeyError:
            raise TypeError(f"Unknown color {fg!r}") from None

    if bg:
        try:
            bits.append(f"\033[{_interpret_color(bg, 10)}m")
        except KeyError:
            raise TypeError(f"Unknown color {bg!r}") from None

    if bold is not None:
        bits.append(f"\033[{1 if bold else 22}m")
    if dim is not None:
        bits.append(f"\033[{2 if dim else 22}m")
    if underline is not None:
        bits.append(f"\033[{4 if underline else 24}m")
    if overline is not None:
        bits.append(f"\033[{53 if overline else 55}m")
    if italic is not None:
        bits.append(f"\033[{3 if italic else 23}m")
    if blink is not None:
        bits.append(f"\033[{5 if blink else 25}m")
    if reverse is not None:
        bits.append(f"\033[{7 if reverse else 27}m")
    if strikethrough is not None:
        bits.append(f"\033[{9 if strikethrough else 29}m")
    bits.append(text)
    if reset:
        bits.append(_ansi_reset_all)
    return "".join(bits)


def unstyle(text: str) -> str:
    """Removes ANSI styling information from a string.  Usually it's not
    necessary to use this function as Click's echo function will
    automatically remove styling if necessary.

    .. versionadded:: 2.0

    :param text: the text to remove style information from.
    """
    return strip_ansi(text)


def secho(
    message: t.Any | None = None,
    file: t.IO[t.AnyStr] | None = None,
    nl: bool = True,
    err: bool = False,
    color: bool | None = None,
    **styles: t.Any,
) -> None:
    """This function combines :func:`echo` and :func:`style` into one
    call.  As such the following two calls are the same::

        click.secho('Hello World!', fg='green')
        click.echo(click.style('Hello World!', fg='green'))

    All keyword arguments are forwarded to the underlying functions
    depending on which one they go with.

    Non-string types will be converted to :class:`str`. However,
    :class:`bytes` are passed directly to :meth:`echo` without applying
    style. If you want to style bytes that represent text, call
    :meth:`bytes.decode` first.

    .. versionchanged:: 8.0
        A non-string ``message`` is converted to a string. Bytes are
        passed through without style applied.

    .. versionadded:: 2.0
    """
    if message is not None and not isinstance(message, (bytes, bytearray)):
        message = style(message, **styles)

    return echo(message, file=file, nl=nl, err=err, color=color)


@t.overload
def edit(
    text: bytes | bytearray,
    editor: str | None = None,
    env: cabc.Mapping[str, str] | None = None,
    require_save: bool = False,
    extension: str = ".txt",
) -> bytes | None: ...


@t.overload
def edit(
    text: str,
    editor: str | None = None,
    env: cabc.Mapping[str, str] | None = None,
    require_save: bool = True,
    extension: str = ".txt",
) -> str | None: ...


@t.overload
def edit(
    text: None = None,
    editor: str | None = None,
    env: cabc.Mapping[str, str] | None = None,
    require_save: bool = True,
    extension: str = ".txt",
    filename: str | cabc.Iterable[str] | None = None,
) -> None: ...


def edit(
    text: str | bytes | bytearray | None = None,
    editor: str | None = None,
    env: cabc.Mapping[str, str] | None = None,
    require_save: bool = True,
    extension: str = ".txt",
    filename: str | cabc.Iterable[str] | None = None,
) -> str | bytes | bytearray | None:
    r"""Edits the given text in the defined editor.  If an editor is given
    (should be the full path to the executable but the regular operating
    system search path is used for finding the executable) it overrides
    the detected editor.  Optionally, some environment variables can be
    used.  If the editor is closed without changes, `None` is returned.  In
    case a file is edited directly the return value is always `None` and
    `require_save` and `extension` are ignored.

    If the editor cannot be opened a :exc:`UsageError` is raised.

    Note for Windows: to simplify cross-platform usage, the newlines are
    automatically converted from POSIX to Windows and vice versa.  As such,
    the message here will have ``\n`` as newline markers.

    :param text: the text to edit.
    :param editor: optionally the editor to use.  Defaults to automatic
                   detection.
    :param env: environment variables to forward to the editor.
    :param require_save: if this is true, then not saving in the editor
                         will make the return value become `None`.
    :param extension: the extension to tell the editor about.  This defaults
                      to `.txt` but changing this might change syntax
                      highlighting.
    :param filename: if provided it will edit this file instead of the
                     provided text contents.  It will not use a temporary
                     file as an indirection in that case. If the editor supports
                     editing multiple files at once, a sequence of files may be
                     passed as well. Invoke `click.file` once per file instead
                     if multiple files cannot be managed at once or editing the
                     files serially is desired.

    .. versionchanged:: 8.2.0
        ``filename`` now accepts any ``Iterable[str]`` in addition to a ``str``
        if the ``editor`` supports editing multiple files at once.

    """
    from ._termui_impl import Editor

    ed = Editor(editor=editor, env=env, require_save=require_save, extension=extension)

    if filename is None:
        return ed.edit(text)

    if isinstance(filename, str):
        filename = (filename,)

    ed.edit_files(filenames=filename)
    return None


def launch(url: str, wait: bool = False, locate: bool = False) -> int:
    """This function launches the given URL (or filename) in the default
    viewer application for this file type.  If this is an executable, it
    might launch the executable in a new session.  The return value is
    the exit code of the launched application.  Usually, ``0`` indicates
    success.

    Examples::

        click.launch('https://click.palletsprojects.com/')
        click.launch('/my/downloaded/file', locate=True)

    .. versionadded:: 2.0

    :param url: URL or filename of the thing to launch.
    :param wait: Wait for the program to exit before returning. This
        only works if the launched program blocks. In particular,
        ``xdg-open`` on Linux does not block.
    :param locate: if this is set to `True` then instead of launching the
                   application associated with the URL it will attempt to
                   launch a file manager with the file located.  This
                   might have weird effects if the URL does not point to
                   the filesystem.
    """
    from ._termui_impl import open_url

    return open_url(url, wait=wait, locate=locate)


# If this is provided, getchar() calls into this instead.  This is used
# for unittesting purposes.
_getchar: t.Callable[[bool], str] | None = None


def getchar(echo: bool = False) -> str:
    """Fetches a single character from the terminal and returns it.  This
    will always return a unicode character and under certain rare
    circumstances this might return more than one character.  The
    situations which more than one character is returned is when for
    whatever reason multiple characters end up in the terminal buffer or
    standard input was not actually a terminal.

    Note that this will always read from the terminal, even if something
    is piped into the standard input.

    Note for Windows: in rare cases when typing non-ASCII characters, this
    function might wait for a second character and then return both at once.
    This is because certain Unicode characters look like special-key markers.

    .. versionadded:: 2.0

    :param echo: if set to `True`, the character read will also show up on
                 the terminal.  The default is to not show it.
    """
    global _getchar

    if _getchar is None:
        from ._termui_impl import getchar as f

        _getchar = f

    return _getchar(echo)


def raw_terminal() -> AbstractContextManager[int]:
    from ._termui_impl import raw_terminal as f

    return f()


def pause(info: str | None = None, err: bool = False) -> None:
    """This command stops execution and waits for the user to press any
    key to continue.  This is similar to the Windows batch "pause"
    command.  If the program is not run through a terminal, this command
    will instead do nothing.

    .. versionadded:: 2.0

    .. versionadded:: 4.0
       Added the `err` parameter.

    :param info: The message to print before pausing. Defaults to
        ``"Press any key to continue..."``.
    :param err: if set to message goes to ``stderr`` instead of
                ``stdout``, the same as with echo.
    """
    if not isatty(sys.stdin) or not isatty(sys.stdout):
        return

    if info is None:
        info = _("Press any key to continue...")

    try:
        if info:
            echo(info, nl=False, err=err)
        try:
            getchar()
        except (KeyboardInterrupt, EOFError):
            pass
    finally:
        if info:
            echo(err=err)
