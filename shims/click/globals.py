from __future__ import annotations

import typing as t
from threading import local

if t.TYPE_CHECKING:
    from .core import Context

_local = local()


@t.overload
def get_current_context(silent: t.Literal[False] = False) -> Context: ...


@t.overload
def get_current_context(silent: bool = ...) -> Context | None: ...


def get_current_context(silent: bool = False) -> Context | None:
    """Returns the current click context.  This can be used as a way to
    access the current context object from anywhere.  This is a more implicit
    alternative to the :func:`pass_context` decorator.  This function is
    primarily useful for helpers such as :func:`echo` which might be
    interested in changing its behavior based on the current context.

    To push the current context, :meth:`Context.scope` can be used.

    .. versionadded:: 5.0

    :param silent: if set to `True` the return value is `None` if no context
                   is available.  The default behavior is to raise a
                   :exc:`RuntimeError`.
    """
    try:
        return t.cast("Context", _local.stack[-1])
    except (AttributeError, IndexError) as e:
        if not silent:
            raise RuntimeError("There is no active click context.") from e

    return None


def push_context(ctx: Context) -> None:
    """Pushes a new context to the current stack."""
    _local.__dict__.setdefault("stack", []).append(ctx)


def pop_context() -> None:
    """Removes the top level from the stack."""
    _local.stack.pop()


def resolve_color_default(color: bool | None = None) -> bool | None:
    """Internal helper to get the default value of the color flag.  If a
    value is passed it's returned unchanged, otherwise it's looked up from
    the current context.
    """
    if color is not None:
        return color

    ctx = get_current_context(silent=True)

    if ctx is not None:
        return ctx.color

    return None
