"""Stand-in for Jinja2 (verification harness of tefra/xsdata; the sandbox has no network).

A small tree-walking interpreter for the subset of the Jinja2 3.1 template language
that xsdata's code generator templates (xsdata/formats/dataclass/templates/*.jinja2)
use, with the semantics of a default `jinja2.Environment(autoescape=False)`:
trim_blocks=False, lstrip_blocks=False, keep_trailing_newline=False.

Supported
  * delimiters `{{ }}`, `{% %}`, `{# #}` with whitespace control (`{%-`, `-%}`, `{{-`,
    `-}}`, `{#-`, `-#}`)
  * statements: `set` (assignment, tuple targets, block-set with optional filter chain),
    `if / elif / else`, `for ... in ... [if ...]` with `else`, tuple unpacking and the
    `loop` variable, `include <expr>` (dynamic name, full context), `filter` blocks,
    `with`
  * expressions: literals (str, int, float, true/false/none, list, tuple, dict),
    names, attribute / item / slice access, calls with keyword arguments,
    `+ - * / // % **`, unary `+ -`, `~`, comparisons (chained), `in`, `not in`,
    `and / or / not`, inline `a if c [else b]`, filters `x|f(a, k=v)`, tests
    `x is [not] t [arg]`
  * Jinja2's `Undefined` semantics (prints as "", falsy, empty iteration, raises
    UndefinedError on attribute access / arithmetic / call)
  * filters: default(d) join indent length(count) groupby upper lower trim string list
    first last replace format; the tests of jinja2.tests that need no environment
  * `Environment(loader=..., autoescape=False, keep_trailing_newline=...)`,
    `.filters/.tests/.globals`, `.get_template`, `.from_string`, `.getattr/.getitem`;
    `FileSystemLoader`, `DictLoader`, `BaseLoader`; `Template.render`

Everything else fails loudly: an unsupported Environment / loader / include option
raises NotImplementedError or TypeError, unsupported template syntax (macro, extends,
block, import, call, raw, do, line statements, `{%+`, `recursive`, `ignore missing`,
`*args`, ...) raises TemplateSyntaxError when the template is loaded, an unknown filter
or test raises TemplateSyntaxError (as Jinja2's compiler does), an unknown `loop`
attribute raises NotImplementedError. Nothing is silently ignored.

Conformance is checked by ../selftest.py (independent of xsdata).
"""

from __future__ import annotations

import enum
import itertools
import numbers
import os
import re
from collections import abc, namedtuple
from typing import Any, Callable

__version__ = "3.1+verif.standin"

__all__ = [
    "BaseLoader",
    "DictLoader",
    "Environment",
    "FileSystemLoader",
    "FilterArgumentError",
    "Template",
    "TemplateAssertionError",
    "TemplateError",
    "TemplateNotFound",
    "TemplateRuntimeError",
    "TemplateSyntaxError",
    "Undefined",
    "UndefinedError",
    "pass_environment",
]


# ---------------------------------------------------------------------------------------
# Exceptions (same names and hierarchy as jinja2.exceptions)
# ---------------------------------------------------------------------------------------


class TemplateError(Exception):
    """Baseclass for all template errors."""

    def __init__(self, message: str | None = None) -> None:
        super().__init__(message)

    @property
    def message(self) -> str | None:
        return self.args[0] if self.args else None


class TemplateNotFound(IOError, LookupError, TemplateError):
    """Raised if a template does not exist."""

    def __init__(self, name: Any, message: str | None = None) -> None:
        IOError.__init__(self, name)
        if message is None:
            message = str(name)
        self._message = message
        self.name = name
        self.templates = [name]

    message = property(lambda self: self._message)  # type: ignore[assignment]

    def __str__(self) -> str:
        return str(self._message)


class TemplateSyntaxError(TemplateError):
    """Raised to tell the user that there is a problem with the template."""

    def __init__(self, message: str, lineno: int | None = None, name: str | None = None) -> None:
        super().__init__(message)
        self.lineno = lineno
        self.name = name

    def __str__(self) -> str:
        where = f" (template {self.name!r})" if self.name else ""
        return f"{self.message}{where}"


class TemplateAssertionError(TemplateSyntaxError):
    """Unknown filter / test name (Jinja2 raises this from its compiler)."""


class TemplateRuntimeError(TemplateError):
    """A generic runtime error in the template engine."""


class UndefinedError(TemplateRuntimeError):
    """Raised if a template tries to operate on :class:`Undefined`."""


class FilterArgumentError(TemplateRuntimeError):
    """Raised if a filter was called with inappropriate arguments."""


# ---------------------------------------------------------------------------------------
# Undefined
# ---------------------------------------------------------------------------------------


class _Missing:
    def __repr__(self) -> str:
        return "missing"


missing: Any = _Missing()


def _object_type_repr(obj: Any) -> str:
    if obj is None:
        return "None"
    if obj is Ellipsis:
        return "Ellipsis"
    cls = type(obj)
    if cls.__module__ == "builtins":
        return f"{cls.__name__} object"
    return f"{cls.__module__}.{cls.__name__} object"


class Undefined:
    """jinja2.Undefined: prints as "", is falsy, iterates as empty, anything else raises."""

    __slots__ = ("_undefined_hint", "_undefined_obj", "_undefined_name", "_undefined_exception")

    def __init__(
        self,
        hint: str | None = None,
        obj: Any = missing,
        name: Any = None,
        exc: type[TemplateRuntimeError] = UndefinedError,
    ) -> None:
        self._undefined_hint = hint
        self._undefined_obj = obj
        self._undefined_name = name
        self._undefined_exception = exc

    @property
    def _undefined_message(self) -> str:
        if self._undefined_hint:
            return self._undefined_hint
        if self._undefined_obj is missing:
            return f"{self._undefined_name!r} is undefined"
        if not isinstance(self._undefined_name, str):
            return f"{_object_type_repr(self._undefined_obj)} has no element {self._undefined_name!r}"
        return f"{_object_type_repr(self._undefined_obj)!r} has no attribute {self._undefined_name!r}"

    def _fail_with_undefined_error(self, *args: Any, **kwargs: Any) -> Any:
        raise self._undefined_exception(self._undefined_message)

    def __getattr__(self, name: str) -> Any:
        if name[:2] == "__":
            raise AttributeError(name)
        return self._fail_with_undefined_error()

    __add__ = __radd__ = __sub__ = __rsub__ = _fail_with_undefined_error
    __mul__ = __rmul__ = __div__ = __rdiv__ = _fail_with_undefined_error
    __truediv__ = __rtruediv__ = _fail_with_undefined_error
    __floordiv__ = __rfloordiv__ = _fail_with_undefined_error
    __mod__ = __rmod__ = _fail_with_undefined_error
    __pos__ = __neg__ = _fail_with_undefined_error
    __call__ = __getitem__ = _fail_with_undefined_error
    __lt__ = __le__ = __gt__ = __ge__ = _fail_with_undefined_error
    __int__ = __float__ = __complex__ = _fail_with_undefined_error
    __pow__ = __rpow__ = _fail_with_undefined_error

    def __eq__(self, other: Any) -> bool:
        return type(self) is type(other)

    def __ne__(self, other: Any) -> bool:
        return not self.__eq__(other)

    def __hash__(self) -> int:
        return id(type(self))

    def __str__(self) -> str:
        return ""

    def __len__(self) -> int:
        return 0

    def __iter__(self):
        yield from ()

    def __bool__(self) -> bool:
        return False

    def __repr__(self) -> str:
        return "Undefined"


# ---------------------------------------------------------------------------------------
# pass_environment marker (same attribute name as Jinja2 uses)
# ---------------------------------------------------------------------------------------


class _PassArg(enum.Enum):
    context = enum.auto()
    eval_context = enum.auto()
    environment = enum.auto()


def pass_environment(f: Callable) -> Callable:
    """Pass the Environment as the first argument to the decorated filter/test/function."""
    f.jinja_pass_arg = _PassArg.environment  # type: ignore[attr-defined]
    return f


def _call(env: "Environment", func: Any, args: list, kwargs: dict) -> Any:
    pass_arg = getattr(func, "jinja_pass_arg", None)
    if pass_arg is not None:
        if pass_arg is _PassArg.environment:
            args = [env, *args]
        else:
            raise NotImplementedError(
                f"jinja2 stand-in: {pass_arg} callables are not supported ({func!r})"
            )
    return func(*args, **kwargs)


# ---------------------------------------------------------------------------------------
# Lexer
# ---------------------------------------------------------------------------------------

_TAG_RE = re.compile(r"\{\{|\{%|\{#")

_TOKEN_RE = re.compile(
    r"""
    (?P<ws>\s+)
  | (?P<float>\d+\.\d+(?:[eE][+-]?\d+)?)
  | (?P<int>\d+)
  | (?P<name>[A-Za-z_][A-Za-z0-9_]*)
  | (?P<str>"(?:\\.|[^"\\])*"|'(?:\\.|[^'\\])*')
  | (?P<op>==|!=|<=|>=|//|\*\*|[-+*/%~<>=|.,:()\[\]{}])
    """,
    re.X | re.S,
)

_CLOSERS = {"{{": "}}", "{%": "%}", "{#": "#}"}
_OPEN = {"(": ")", "[": "]", "{": "}"}


def _tokenize_expr(src: str, where: str) -> list[tuple[str, Any]]:
    pos = 0
    tokens: list[tuple[str, Any]] = []
    while pos < len(src):
        m = _TOKEN_RE.match(src, pos)
        if not m:
            raise TemplateSyntaxError(f"unexpected char {src[pos]!r} in {where} {src!r}")
        pos = m.end()
        kind = m.lastgroup
        val = m.group(kind)  # type: ignore[arg-type]
        if kind == "ws":
            continue
        if kind == "int":
            tokens.append(("int", int(val)))
        elif kind == "float":
            tokens.append(("float", float(val)))
        elif kind == "str":
            # exactly what jinja2.lexer does with string literals
            try:
                text = val[1:-1].encode("ascii", "backslashreplace").decode("unicode-escape")
            except Exception as e:
                raise TemplateSyntaxError(f"bad string literal {val}: {e}") from e
            tokens.append(("str", text))
        else:
            tokens.append((kind, val))  # type: ignore[arg-type]
    tokens.append(("eof", None))
    return tokens


def _find_close(source: str, start: int, closer: str) -> int:
    """Index of the closing delimiter; string literals and balanced brackets are skipped."""
    i = start
    n = len(source)
    if closer == "#}":
        j = source.find(closer, start)
        if j < 0:
            raise TemplateSyntaxError("Missing end of comment tag")
        return j
    quote = None
    stack: list[str] = []
    while i < n:
        ch = source[i]
        if quote:
            if ch == "\\":
                i += 2
                continue
            if ch == quote:
                quote = None
        elif ch in "\"'":
            quote = ch
        elif not stack and source.startswith(closer, i):
            return i
        elif ch in _OPEN:
            stack.append(_OPEN[ch])
        elif ch in ")]}":
            if not stack:
                raise TemplateSyntaxError(f"unexpected {ch!r}")
            if stack.pop() != ch:
                raise TemplateSyntaxError(f"unexpected {ch!r}")
        i += 1
    raise TemplateSyntaxError(f"unclosed tag, expected {closer!r}")


def _lex(source: str) -> list[tuple[str, Any]]:
    """Template source -> [('data', str) | ('var', tokens) | ('block', tokens)].

    Whitespace control: `-` after an opening delimiter strips all whitespace at the end
    of the preceding data, `-` before a closing delimiter strips all whitespace at the
    start of the following data. `+` modifiers are not supported (syntax error).
    """
    out: list[tuple[str, Any]] = []
    pos = 0
    strip_next = False
    n = len(source)
    while pos < n:
        m = _TAG_RE.search(source, pos)
        if not m:
            data = source[pos:]
            if strip_next:
                data = data.lstrip()
            if data:
                out.append(("data", data))
            break
        data = source[pos : m.start()]
        if strip_next:
            data = data.lstrip()
            strip_next = False
        opener = m.group(0)
        inner_start = m.end()
        if source.startswith("-", inner_start):
            data = data.rstrip()
            inner_start += 1
        elif source.startswith("+", inner_start) and opener != "{{":
            raise TemplateSyntaxError("jinja2 stand-in: the '+' whitespace modifier is not supported")
        if data:
            out.append(("data", data))
        closer = _CLOSERS[opener]
        end = _find_close(source, inner_start, closer)
        inner = source[inner_start:end]
        pos = end + 2
        if inner.endswith("-"):
            inner = inner[:-1]
            strip_next = True
        elif inner.endswith("+") and opener != "{{":
            raise TemplateSyntaxError("jinja2 stand-in: the '+' whitespace modifier is not supported")
        if opener == "{{":
            out.append(("var", _tokenize_expr(inner, "expression")))
        elif opener == "{%":
            out.append(("block", _tokenize_expr(inner, "tag")))
        # comments produce nothing
    return out


# ---------------------------------------------------------------------------------------
# Expression parser (tokens -> closures taking the render context)
# ---------------------------------------------------------------------------------------

_CMP: dict[str, Callable[[Any, Any], Any]] = {
    "==": lambda a, b: a == b,
    "!=": lambda a, b: a != b,
    "<": lambda a, b: a < b,
    ">": lambda a, b: a > b,
    "<=": lambda a, b: a <= b,
    ">=": lambda a, b: a >= b,
}

_BINOPS: dict[str, Callable[[Any, Any], Any]] = {
    "+": lambda a, b: a + b,
    "-": lambda a, b: a - b,
    "*": lambda a, b: a * b,
    "/": lambda a, b: a / b,
    "//": lambda a, b: a // b,
    "%": lambda a, b: a % b,
    "**": lambda a, b: a**b,
}

_Expr = Callable[["_Context"], Any]
_FilterChain = list  # [(name, [arg exprs], [(kw, expr)])]


class _Parser:
    def __init__(self, tokens: list[tuple[str, Any]], env: "Environment"):
        self.tokens = tokens
        self.i = 0
        self.env = env

    # ---- token helpers
    def peek(self) -> tuple[str, Any]:
        return self.tokens[self.i]

    def next(self) -> tuple[str, Any]:
        tok = self.tokens[self.i]
        if tok[0] != "eof":
            self.i += 1
        return tok

    def at(self, kind: str, val: Any = None) -> bool:
        k, v = self.tokens[self.i]
        return k == kind and (val is None or v == val)

    def accept(self, kind: str, val: Any = None) -> bool:
        if self.at(kind, val):
            self.i += 1
            return True
        return False

    def expect(self, kind: str, val: Any = None) -> Any:
        if not self.at(kind, val):
            want = repr(val) if val is not None else kind
            raise TemplateSyntaxError(f"expected token {want}, got {self.peek()[1]!r}")
        return self.next()[1]

    def at_end(self) -> bool:
        return self.at("eof")

    def expect_end(self, what: str) -> None:
        if not self.at_end():
            raise TemplateSyntaxError(f"unexpected {self.peek()[1]!r} in {what}")

    # ---- grammar (same structure and precedence as jinja2.parser.Parser)
    def parse_expression(self, with_condexpr: bool = True) -> _Expr:
        return self.parse_condexpr() if with_condexpr else self.parse_or()

    def parse_tuple_or_expression(self, with_condexpr: bool = True) -> _Expr:
        """An expression, or an implicit tuple `a, b` (as in `{{ a, b }}` / `set x = a, b`)."""
        first = self.parse_expression(with_condexpr)
        if not self.at("op", ","):
            return first
        items = [first]
        while self.accept("op", ","):
            if self.at_end() or (self.at("name", "if") and not with_condexpr):
                break
            items.append(self.parse_expression(with_condexpr))
        return lambda ctx: tuple(it(ctx) for it in items)

    def parse_condexpr(self) -> _Expr:
        expr1 = self.parse_or()
        while self.accept("name", "if"):
            cond = self.parse_or()
            expr3 = self.parse_condexpr() if self.accept("name", "else") else None

            def run(ctx, e1=expr1, c=cond, e3=expr3):
                if c(ctx):
                    return e1(ctx)
                if e3 is None:
                    return Undefined(
                        hint="the inline if-expression evaluated to false and no else section was defined."
                    )
                return e3(ctx)

            expr1 = run
        return expr1

    def parse_or(self) -> _Expr:
        left = self.parse_and()
        while self.accept("name", "or"):
            right = self.parse_and()
            left = (lambda a, b: lambda ctx: a(ctx) or b(ctx))(left, right)
        return left

    def parse_and(self) -> _Expr:
        left = self.parse_not()
        while self.accept("name", "and"):
            right = self.parse_not()
            left = (lambda a, b: lambda ctx: a(ctx) and b(ctx))(left, right)
        return left

    def parse_not(self) -> _Expr:
        if self.accept("name", "not"):
            inner = self.parse_not()
            return lambda ctx: not inner(ctx)
        return self.parse_compare()

    def parse_compare(self) -> _Expr:
        left = self.parse_math1()
        ops: list[tuple[Callable[[Any, Any], Any], _Expr]] = []
        while True:
            k, v = self.peek()
            if k == "op" and v in _CMP:
                self.next()
                ops.append((_CMP[v], self.parse_math1()))
            elif k == "name" and v == "in":
                self.next()
                ops.append((lambda a, b: a in b, self.parse_math1()))
            elif k == "name" and v == "not" and self.tokens[self.i + 1] == ("name", "in"):
                self.next()
                self.next()
                ops.append((lambda a, b: a not in b, self.parse_math1()))
            else:
                break
        if not ops:
            return left

        def run(ctx):
            cur = left(ctx)
            for fn, rhs in ops:
                other = rhs(ctx)
                if not fn(cur, other):
                    return False
                cur = other
            return True

        return run

    def _binary(self, sub: Callable[[], _Expr], symbols: tuple[str, ...]) -> _Expr:
        left = sub()
        while self.at("op") and self.peek()[1] in symbols:
            fn = _BINOPS[self.next()[1]]
            right = sub()
            left = (lambda a, b, fn: lambda ctx: fn(a(ctx), b(ctx)))(left, right, fn)
        return left

    def parse_math1(self) -> _Expr:
        return self._binary(self.parse_concat, ("+", "-"))

    def parse_concat(self) -> _Expr:
        parts = [self.parse_math2()]
        while self.accept("op", "~"):
            parts.append(self.parse_math2())
        if len(parts) == 1:
            return parts[0]
        return lambda ctx: "".join(str(p(ctx)) for p in parts)

    def parse_math2(self) -> _Expr:
        return self._binary(self.parse_pow, ("*", "/", "//", "%"))

    def parse_pow(self) -> _Expr:
        return self._binary(self.parse_unary, ("**",))

    def parse_unary(self, with_filter: bool = True) -> _Expr:
        if self.accept("op", "-"):
            inner = self.parse_unary(False)
            node: _Expr = lambda ctx: -inner(ctx)  # noqa: E731
        elif self.accept("op", "+"):
            inner = self.parse_unary(False)
            node = lambda ctx: +inner(ctx)  # noqa: E731
        else:
            node = self.parse_primary()
        node = self.parse_postfix(node)
        if with_filter:
            node = self.parse_filter_expr(node)
        return node

    def parse_primary(self) -> _Expr:
        k, v = self.next()
        if k == "name":
            if v in ("true", "True"):
                return lambda ctx: True
            if v in ("false", "False"):
                return lambda ctx: False
            if v in ("none", "None"):
                return lambda ctx: None
            return lambda ctx, v=v: ctx.resolve(v)
        if k == "str":
            while self.at("str"):  # adjacent string literals concatenate
                v += self.next()[1]
            return lambda ctx, v=v: v
        if k in ("int", "float"):
            return lambda ctx, v=v: v
        if k == "op" and v == "(":
            return self.parse_paren_tuple()
        if k == "op" and v == "[":
            items = []
            while not self.at("op", "]"):
                items.append(self.parse_expression())
                if not self.accept("op", ","):
                    break
            self.expect("op", "]")
            return lambda ctx: [it(ctx) for it in items]
        if k == "op" and v == "{":
            pairs = []
            while not self.at("op", "}"):
                key = self.parse_expression()
                self.expect("op", ":")
                pairs.append((key, self.parse_expression()))
                if not self.accept("op", ","):
                    break
            self.expect("op", "}")
            return lambda ctx: {a(ctx): b(ctx) for a, b in pairs}
        raise TemplateSyntaxError(f"unexpected {'end of tag' if k == 'eof' else repr(v)}")

    def parse_paren_tuple(self) -> _Expr:
        items = []
        is_tuple = False
        while not self.at("op", ")"):
            items.append(self.parse_expression())
            if self.accept("op", ","):
                is_tuple = True
            else:
                break
        self.expect("op", ")")
        if not is_tuple and len(items) == 1:
            return items[0]
        return lambda ctx: tuple(it(ctx) for it in items)

    def parse_postfix(self, node: _Expr) -> _Expr:
        env = self.env
        while True:
            if self.at("op", "."):
                self.next()
                k, v = self.next()
                if k == "name":
                    node = (lambda n, v: lambda ctx: env.getattr(n(ctx), v))(node, v)
                elif k == "int":
                    node = (lambda n, v: lambda ctx: env.getitem(n(ctx), v))(node, v)
                else:
                    raise TemplateSyntaxError("expected name or number")
            elif self.at("op", "["):
                self.next()
                node = self.parse_subscript(node)
                self.expect("op", "]")
            elif self.at("op", "("):
                node = self.parse_call(node)
            else:
                return node

    def parse_subscript(self, node: _Expr) -> _Expr:
        env = self.env
        parts: list[_Expr | None] = []
        is_slice = False
        if self.at("op", ":"):
            parts.append(None)
        else:
            parts.append(self.parse_expression())
        while self.accept("op", ":"):
            is_slice = True
            if self.at("op", ":") or self.at("op", "]"):
                parts.append(None)
            else:
                parts.append(self.parse_expression())
        if not is_slice:
            arg = parts[0]
            assert arg is not None
            return (lambda n, a: lambda ctx: env.getitem(n(ctx), a(ctx)))(node, arg)
        if len(parts) > 3:
            raise TemplateSyntaxError("too many slice parts")

        def run(ctx, n=node, parts=parts):
            return env.getitem(n(ctx), slice(*[p(ctx) if p is not None else None for p in parts]))

        return run

    def parse_call_args(self) -> tuple[list[_Expr], list[tuple[str, _Expr]]]:
        self.expect("op", "(")
        args: list[_Expr] = []
        kwargs: list[tuple[str, _Expr]] = []
        while not self.at("op", ")"):
            if self.at("op", "*") or self.at("op", "**"):
                raise TemplateSyntaxError("jinja2 stand-in: *args / **kwargs in calls are not supported")
            if self.at("name") and self.tokens[self.i + 1] == ("op", "="):
                key = self.next()[1]
                self.next()
                kwargs.append((key, self.parse_expression()))
            else:
                if kwargs:
                    raise TemplateSyntaxError("Invalid argument syntax for function call expression")
                args.append(self.parse_expression())
            if not self.accept("op", ","):
                break
        self.expect("op", ")")
        return args, kwargs

    def parse_call(self, node: _Expr) -> _Expr:
        env = self.env
        args, kwargs = self.parse_call_args()

        def run(ctx, n=node, args=args, kwargs=kwargs):
            return _call(env, n(ctx), [a(ctx) for a in args], {k: a(ctx) for k, a in kwargs})

        return run

    def parse_filter_expr(self, node: _Expr) -> _Expr:
        while True:
            if self.at("op", "|"):
                chain = self.parse_filter_chain()
                node = (lambda n, chain: lambda ctx: self.apply_filters(ctx, n(ctx), chain))(node, chain)
            elif self.at("name", "is"):
                node = self.parse_test(node)
            elif self.at("op", "("):
                node = self.parse_call(node)
            else:
                return node

    def parse_filter_chain(self, start_inline: bool = False) -> _FilterChain:
        """`|f|g(x)` (or `f|g(x)` when start_inline, as in `{% filter f %}`)."""
        chain: _FilterChain = []
        while self.at("op", "|") or start_inline:
            if not start_inline:
                self.next()
            start_inline = False
            name = self.expect("name")
            while self.accept("op", "."):
                name += "." + self.expect("name")
            if self.at("op", "("):
                args, kwargs = self.parse_call_args()
            else:
                args, kwargs = [], []
            if name not in self.env.filters:
                raise TemplateAssertionError(f"No filter named {name!r}.")
            chain.append((name, args, kwargs))
        return chain

    def apply_filters(self, ctx: "_Context", value: Any, chain: _FilterChain) -> Any:
        env = self.env
        for name, args, kwargs in chain:
            func = env.filters.get(name)
            if func is None:
                raise TemplateRuntimeError(f"No filter named {name!r}.")
            value = _call(env, func, [value, *[a(ctx) for a in args]], {k: a(ctx) for k, a in kwargs})
        return value

    def parse_test(self, node: _Expr) -> _Expr:
        env = self.env
        self.expect("name", "is")
        negated = self.accept("name", "not")
        name = self.expect("name")
        while self.accept("op", "."):
            name += "." + self.expect("name")
        args: list[_Expr] = []
        kwargs: list[tuple[str, _Expr]] = []
        k, v = self.peek()
        if k == "op" and v == "(":
            args, kwargs = self.parse_call_args()
        elif (k in ("name", "str", "int", "float") or (k == "op" and v in ("[", "{"))) and not (
            k == "name" and v in ("else", "or", "and")
        ):
            if k == "name" and v == "is":
                raise TemplateSyntaxError("You cannot chain multiple tests with is")
            args = [self.parse_postfix(self.parse_primary())]
        if name not in env.tests:
            raise TemplateAssertionError(f"No test named {name!r}.")

        def run(ctx, n=node, name=name, args=args, kwargs=kwargs, negated=negated):
            func = env.tests.get(name)
            if func is None:
                raise TemplateRuntimeError(f"No test named {name!r}.")
            rv = bool(_call(env, func, [n(ctx), *[a(ctx) for a in args]], {k: a(ctx) for k, a in kwargs}))
            return not rv if negated else rv

        return run

    def parse_assign_target(self) -> list[str]:
        """`name` or `name, name, ...` (optionally parenthesised). Returns the names."""
        parens = self.accept("op", "(")
        names = [self.expect("name")]
        while self.accept("op", ","):
            if self.at("name") and self.peek()[1] != "in":
                names.append(self.expect("name"))
            else:
                break
        if parens:
            self.expect("op", ")")
        for n in names:
            if n in ("true", "false", "none", "True", "False", "None"):
                raise TemplateSyntaxError(f"can't assign to {n!r}")
        if self.at("op", ".") or self.at("op", "["):
            raise TemplateSyntaxError("jinja2 stand-in: namespace / item assignment is not supported")
        return names


# ---------------------------------------------------------------------------------------
# Render context: a chain of scopes, innermost last
# ---------------------------------------------------------------------------------------


class _Context:
    __slots__ = ("env", "scopes")

    def __init__(self, env: "Environment", scopes: list[dict]):
        self.env = env
        self.scopes = scopes

    def resolve(self, name: str) -> Any:
        for scope in reversed(self.scopes):
            if name in scope:
                return scope[name]
        if name in self.env.globals:
            return self.env.globals[name]
        return Undefined(name=name)

    def set(self, name: str, value: Any) -> None:
        self.scopes[-1][name] = value

    def push(self, scope: dict | None = None) -> None:
        self.scopes.append(scope if scope is not None else {})

    def pop(self) -> None:
        self.scopes.pop()

    def flatten(self) -> dict:
        out: dict = {}
        for scope in self.scopes:
            out.update(scope)
        return out


_Node = Callable[[_Context, list], None]


def _render_nodes(nodes: list[_Node], ctx: _Context, out: list[str]) -> None:
    for node in nodes:
        node(ctx, out)


def _bind(ctx: _Context, targets: list[str], value: Any) -> None:
    if len(targets) == 1:
        ctx.set(targets[0], value)
        return
    values = tuple(value)
    if len(values) > len(targets):
        raise ValueError(f"too many values to unpack (expected {len(targets)})")
    if len(values) < len(targets):
        raise ValueError(f"not enough values to unpack (expected {len(targets)}, got {len(values)})")
    for n, v in zip(targets, values):
        ctx.set(n, v)


class _Loop:
    """The `loop` variable (jinja2.runtime.LoopContext subset; no recursion)."""

    def __init__(self, items: list):
        self._items = items
        self.length = len(items)
        self.index0 = -1
        self.depth0 = 0
        self._last_changed: Any = missing

    def _advance(self) -> None:
        self.index0 += 1

    index = property(lambda self: self.index0 + 1)
    depth = property(lambda self: self.depth0 + 1)
    revindex0 = property(lambda self: self.length - self.index0 - 1)
    revindex = property(lambda self: self.length - self.index0)
    first = property(lambda self: self.index0 == 0)
    last = property(lambda self: self.index0 == self.length - 1)

    @property
    def previtem(self) -> Any:
        if self.first:
            return Undefined("there is no previous item")
        return self._items[self.index0 - 1]

    @property
    def nextitem(self) -> Any:
        if self.last:
            return Undefined("there is no next item")
        return self._items[self.index0 + 1]

    def cycle(self, *args: Any) -> Any:
        if not args:
            raise TypeError("no items for cycling given")
        return args[self.index0 % len(args)]

    def changed(self, *value: Any) -> bool:
        if self._last_changed != value:
            self._last_changed = value
            return True
        return False

    def __len__(self) -> int:
        return self.length

    def __call__(self, *args: Any, **kwargs: Any) -> Any:
        raise TypeError("Tried to call non recursive loop.  Maybe you forgot the 'recursive' modifier.")

    def __getattr__(self, name: str) -> Any:
        if name[:2] == "__":
            raise AttributeError(name)
        raise NotImplementedError(f"jinja2 stand-in: loop.{name} is not supported")

    def __repr__(self) -> str:
        return f"<LoopContext {self.index}/{self.length}>"


# ---------------------------------------------------------------------------------------
# Template: statement parser + renderer
# ---------------------------------------------------------------------------------------


class Template:
    """A loaded template. Create through Environment.get_template / from_string."""

    def __init__(self, env: "Environment", source: str, name: str | None = None):
        if not isinstance(env, Environment):
            raise TypeError(
                "jinja2 stand-in: Template(source) is not supported, use Environment.from_string(source)"
            )
        self.environment = env
        self.name = name
        self.filename: str | None = None
        # jinja2.lexer.Lexer.tokeniter: newlines are normalised and, unless
        # keep_trailing_newline, one trailing newline of the source is dropped
        lines = source.splitlines()
        if env.keep_trailing_newline and source:
            if source.endswith(("\r\n", "\r", "\n")):
                lines.append("")
        source = "\n".join(lines)
        try:
            self._chunks = _lex(source)
            self._pos = 0
            self._nodes = self._parse_until(())
            if self._pos != len(self._chunks):
                raise TemplateSyntaxError(f"Encountered unknown tag {self._chunks[self._pos][1][0][1]!r}.")
        except TemplateSyntaxError as e:
            if e.name is None:
                e.name = name
            raise
        del self._chunks

    # ---- statement parsing -------------------------------------------------------------
    def _parse_until(self, end_names: tuple[str, ...]) -> list[_Node]:
        nodes: list[_Node] = []
        while self._pos < len(self._chunks):
            kind, payload = self._chunks[self._pos]
            if kind == "data":
                self._pos += 1
                nodes.append((lambda d: lambda ctx, out: out.append(d))(payload))
            elif kind == "var":
                self._pos += 1
                p = _Parser(payload, self.environment)
                expr = p.parse_tuple_or_expression()
                p.expect_end("print statement")
                nodes.append((lambda e: lambda ctx, out: out.append(str(e(ctx))))(expr))
            else:
                name = payload[0][1] if payload[0][0] == "name" else None
                if name in end_names:
                    return nodes
                self._pos += 1
                nodes.append(self._parse_block(name, payload))
        if end_names:
            raise TemplateSyntaxError(
                "Unexpected end of template. Jinja was looking for the following tags: "
                + " or ".join(repr(n) for n in end_names)
            )
        return nodes

    def _end(self, plain: tuple[str, ...] = ()) -> tuple[str, _Parser]:
        """Consume the end/continuation tag _parse_until stopped at."""
        _, payload = self._chunks[self._pos]
        self._pos += 1
        p = _Parser(payload, self.environment)
        name = p.expect("name")
        if name in plain or name.startswith("end"):
            p.expect_end(f"{name!r} tag")
        return name, p

    def _parse_block(self, name: str | None, payload: list) -> _Node:
        p = _Parser(payload, self.environment)
        method = getattr(self, f"_tag_{name}", None) if name else None
        if method is None:
            shown = name if name is not None else payload[0][1]
            raise TemplateSyntaxError(
                f"Encountered unknown tag {shown!r} (jinja2 stand-in supports: set if for include filter with)."
            )
        p.expect("name")
        return method(p)

    def _tag_set(self, p: _Parser) -> _Node:
        names = p.parse_assign_target()
        if p.accept("op", "="):
            expr = p.parse_tuple_or_expression()
            p.expect_end("set")

            def run(ctx, out, names=names, expr=expr):
                _bind(ctx, names, expr(ctx))

            return run

        # block set, optional filter chain
        if len(names) != 1:
            raise TemplateSyntaxError("block set takes exactly one target name")
        chain = p.parse_filter_chain() if p.at("op", "|") else []
        p.expect_end("block set")
        body = self._parse_until(("endset",))
        self._end()

        def run_block(ctx, out, name=names[0], body=body, chain=chain):
            buf: list[str] = []
            ctx.push()
            try:
                _render_nodes(body, ctx, buf)
            finally:
                ctx.pop()
            value: Any = "".join(buf)
            if chain:
                value = p.apply_filters(ctx, value, chain)
            ctx.set(name, value)

        return run_block

    def _tag_if(self, p: _Parser) -> _Node:
        branches: list[tuple[_Expr, list[_Node]]] = []
        cond = p.parse_tuple_or_expression()
        p.expect_end("if")
        else_body = None
        while True:
            body = self._parse_until(("elif", "else", "endif"))
            branches.append((cond, body))
            tag, tp = self._end(plain=("else",))
            if tag == "elif":
                cond = tp.parse_tuple_or_expression()
                tp.expect_end("elif")
                continue
            if tag == "else":
                else_body = self._parse_until(("endif",))
                self._end()
            break

        def run(ctx, out):
            for c, body in branches:
                if c(ctx):
                    _render_nodes(body, ctx, out)
                    return
            if else_body is not None:
                _render_nodes(else_body, ctx, out)

        return run

    def _tag_for(self, p: _Parser) -> _Node:
        targets = p.parse_assign_target()
        p.expect("name", "in")
        iterable = p.parse_tuple_or_expression(with_condexpr=False)
        test = None
        if p.accept("name", "if"):
            test = p.parse_expression()
        if p.at("name", "recursive"):
            raise TemplateSyntaxError("jinja2 stand-in: recursive for loops are not supported")
        p.expect_end("for")
        body = self._parse_until(("else", "endfor"))
        tag, _ = self._end(plain=("else",))
        else_body = None
        if tag == "else":
            else_body = self._parse_until(("endfor",))
            self._end()

        def run(ctx, out):
            items = list(iterable(ctx))
            if test is not None:
                kept = []
                for item in items:
                    ctx.push()
                    try:
                        _bind(ctx, targets, item)
                        if test(ctx):
                            kept.append(item)
                    finally:
                        ctx.pop()
                items = kept
            if not items:
                if else_body is not None:
                    _render_nodes(else_body, ctx, out)
                return
            loop = _Loop(items)
            for item in items:
                loop._advance()
                ctx.push({"loop": loop})
                try:
                    _bind(ctx, targets, item)
                    _render_nodes(body, ctx, out)
                finally:
                    ctx.pop()

        return run

    def _tag_include(self, p: _Parser) -> _Node:
        target = p.parse_expression()
        if not p.at_end():
            raise TemplateSyntaxError(
                "jinja2 stand-in: include options (ignore missing / with[out] context) are not supported"
            )
        env = self.environment

        def run(ctx, out):
            name = target(ctx)
            if isinstance(name, (list, tuple)):
                raise NotImplementedError("jinja2 stand-in: include of a list of names is not supported")
            tpl = env.get_template(name)
            # the included template sees the whole current context; its own top level
            # assignments stay local to it
            _render_nodes(tpl._nodes, _Context(env, [ctx.flatten()]), out)

        return run

    def _tag_filter(self, p: _Parser) -> _Node:
        chain = p.parse_filter_chain(start_inline=True)
        p.expect_end("filter")
        body = self._parse_until(("endfilter",))
        self._end()

        def run(ctx, out):
            buf: list[str] = []
            ctx.push()
            try:
                _render_nodes(body, ctx, buf)
            finally:
                ctx.pop()
            out.append(str(p.apply_filters(ctx, "".join(buf), chain)))

        return run

    def _tag_with(self, p: _Parser) -> _Node:
        assigns: list[tuple[str, _Expr]] = []
        while not p.at_end():
            if assigns:
                p.expect("op", ",")
            name = p.expect("name")
            p.expect("op", "=")
            assigns.append((name, p.parse_expression()))
        body = self._parse_until(("endwith",))
        self._end()

        def run(ctx, out):
            values = {n: e(ctx) for n, e in assigns}  # evaluated in the outer scope
            ctx.push(values)
            try:
                _render_nodes(body, ctx, out)
            finally:
                ctx.pop()

        return run

    # ---- rendering ----------------------------------------------------------------------
    def render(self, *args: Any, **kwargs: Any) -> str:
        ctx = _Context(self.environment, [dict(*args, **kwargs)])
        out: list[str] = []
        _render_nodes(self._nodes, ctx, out)
        return "".join(out)

    def __repr__(self) -> str:
        return f"<Template {self.name!r}>" if self.name else f"<Template memory:{id(self):x}>"


# ---------------------------------------------------------------------------------------
# Builtin filters (same behaviour as jinja2.filters with autoescape off)
# ---------------------------------------------------------------------------------------


def _ignore_case(value: Any) -> Any:
    return value.lower() if isinstance(value, str) else value


def _make_attrgetter(
    env: "Environment", attribute: Any, postprocess: Callable | None = None, default: Any = None
) -> Callable[[Any], Any]:
    if attribute is None:
        parts: list = []
    elif isinstance(attribute, str):
        parts = [int(x) if x.isdigit() else x for x in attribute.split(".")]
    else:
        parts = [attribute]

    def attrgetter(item: Any) -> Any:
        for part in parts:
            item = env.getitem(item, part)
            if default is not None and isinstance(item, Undefined):
                item = default
        if postprocess is not None:
            item = postprocess(item)
        return item

    return attrgetter


def _do_default(value: Any, default_value: Any = "", boolean: bool = False) -> Any:
    if isinstance(value, Undefined) or (boolean and not value):
        return default_value
    return value


@pass_environment
def _do_join(env: "Environment", value: Any, d: str = "", attribute: Any = None) -> str:
    if attribute is not None:
        value = map(_make_attrgetter(env, attribute), value)
    return str(d).join(map(str, value))


def _do_indent(s: str, width: int | str = 4, first: bool = False, blank: bool = False) -> str:
    indention = width if isinstance(width, str) else " " * width
    newline = "\n"
    s += newline  # this quirk is necessary for splitlines method
    if blank:
        rv = (newline + indention).join(s.splitlines())
    else:
        lines = s.splitlines()
        rv = lines.pop(0)
        if lines:
            rv += newline + newline.join(indention + line if line else line for line in lines)
    if first:
        rv = indention + rv
    return rv


_GroupTuple = namedtuple("_GroupTuple", ["grouper", "list"])
_GroupTuple.__repr__ = lambda self: tuple.__repr__(self)  # type: ignore[method-assign]
_GroupTuple.__str__ = lambda self: tuple.__str__(self)  # type: ignore[method-assign]


@pass_environment
def _do_groupby(
    env: "Environment", value: Any, attribute: Any, default: Any = None, case_sensitive: bool = False
) -> list:
    """Jinja2 3.1: stable sort + group by the attribute, case-insensitive unless asked."""
    expr = _make_attrgetter(env, attribute, postprocess=None if case_sensitive else _ignore_case, default=default)
    out = [_GroupTuple(key, list(values)) for key, values in itertools.groupby(sorted(value, key=expr), expr)]
    if not case_sensitive:
        # return the real key from the first value instead of the lowercased key
        output_expr = _make_attrgetter(env, attribute, default=default)
        out = [_GroupTuple(output_expr(values[0]), values) for _, values in out]
    return out


@pass_environment
def _do_first(env: "Environment", seq: Any) -> Any:
    try:
        return next(iter(seq))
    except StopIteration:
        return Undefined("No first item, sequence was empty.")


@pass_environment
def _do_last(env: "Environment", seq: Any) -> Any:
    try:
        return next(iter(reversed(seq)))
    except StopIteration:
        return Undefined("No last item, sequence was empty.")


def _do_replace(s: Any, old: Any, new: Any, count: int | None = None) -> str:
    if count is None:
        count = -1
    return str(s).replace(str(old), str(new), count)


def _do_format(value: Any, *args: Any, **kwargs: Any) -> str:
    if args and kwargs:
        raise FilterArgumentError("can't handle positional and keyword arguments at the same time")
    return str(value) % (kwargs or args)


def _do_length(obj: Any) -> int:
    return len(obj)


_DEFAULT_FILTERS: dict[str, Callable] = {
    "default": _do_default,
    "d": _do_default,
    "join": _do_join,
    "indent": _do_indent,
    "length": _do_length,
    "count": _do_length,
    "groupby": _do_groupby,
    "upper": lambda s: str(s).upper(),
    "lower": lambda s: str(s).lower(),
    "trim": lambda s, chars=None: str(s).strip(chars),
    "string": lambda s: str(s),
    "list": lambda v: list(v),
    "first": _do_first,
    "last": _do_last,
    "replace": _do_replace,
    "format": _do_format,
}


# ---------------------------------------------------------------------------------------
# Builtin tests (jinja2.tests, minus the ones that need the environment or Markup)
# ---------------------------------------------------------------------------------------


def _test_sequence(value: Any) -> bool:
    try:
        len(value)
        value.__getitem__  # noqa: B018
    except Exception:
        return False
    return True


def _test_iterable(value: Any) -> bool:
    try:
        iter(value)
    except TypeError:
        return False
    return True


_DEFAULT_TESTS: dict[str, Callable] = {
    "odd": lambda v: v % 2 == 1,
    "even": lambda v: v % 2 == 0,
    "divisibleby": lambda v, num: v % num == 0,
    "defined": lambda v: not isinstance(v, Undefined),
    "undefined": lambda v: isinstance(v, Undefined),
    "none": lambda v: v is None,
    "boolean": lambda v: v is True or v is False,
    "false": lambda v: v is False,
    "true": lambda v: v is True,
    "integer": lambda v: isinstance(v, int) and v is not True and v is not False,
    "float": lambda v: isinstance(v, float),
    "lower": lambda v: str(v).islower(),
    "upper": lambda v: str(v).isupper(),
    "string": lambda v: isinstance(v, str),
    "mapping": lambda v: isinstance(v, abc.Mapping),
    "number": lambda v: isinstance(v, numbers.Number),
    "sequence": _test_sequence,
    "iterable": _test_iterable,
    "callable": callable,
    "sameas": lambda v, other: v is other,
    "in": lambda v, seq: v in seq,
    "==": lambda a, b: a == b,
    "eq": lambda a, b: a == b,
    "equalto": lambda a, b: a == b,
    "!=": lambda a, b: a != b,
    "ne": lambda a, b: a != b,
    ">": lambda a, b: a > b,
    "gt": lambda a, b: a > b,
    "greaterthan": lambda a, b: a > b,
    "ge": lambda a, b: a >= b,
    ">=": lambda a, b: a >= b,
    "<": lambda a, b: a < b,
    "lt": lambda a, b: a < b,
    "lessthan": lambda a, b: a < b,
    "<=": lambda a, b: a <= b,
    "le": lambda a, b: a <= b,
}


# ---------------------------------------------------------------------------------------
# Loaders
# ---------------------------------------------------------------------------------------


def _split_template_path(template: str) -> list[str]:
    """jinja2.loaders.split_template_path: refuse path traversal."""
    pieces = []
    for piece in template.split("/"):
        if os.path.sep in piece or (os.path.altsep and os.path.altsep in piece) or piece == os.path.pardir:
            raise TemplateNotFound(template)
        if piece and piece != ".":
            pieces.append(piece)
    return pieces


class BaseLoader:
    """Subclass and override get_source -> (source, filename, uptodate)."""

    def get_source(self, environment: "Environment", template: str) -> tuple[str, str | None, Callable[[], bool] | None]:
        raise TemplateNotFound(template)


class FileSystemLoader(BaseLoader):
    def __init__(self, searchpath: Any, encoding: str = "utf-8", followlinks: bool = False):
        if followlinks:
            raise NotImplementedError("jinja2 stand-in: FileSystemLoader(followlinks=True) is not supported")
        if not isinstance(searchpath, abc.Iterable) or isinstance(searchpath, str):
            searchpath = [searchpath]
        self.searchpath = [os.fspath(p) for p in searchpath]
        self.encoding = encoding

    def get_source(self, environment: "Environment", template: str):
        pieces = _split_template_path(template)
        for base in self.searchpath:
            filename = os.path.join(base, *pieces)
            if not os.path.isfile(filename):
                continue
            with open(filename, encoding=self.encoding) as fp:
                contents = fp.read()
            mtime = os.path.getmtime(filename)

            def uptodate(filename=filename, mtime=mtime) -> bool:
                try:
                    return os.path.getmtime(filename) == mtime
                except OSError:
                    return False

            return contents, os.path.normpath(filename), uptodate
        raise TemplateNotFound(template)


class DictLoader(BaseLoader):
    def __init__(self, mapping: dict[str, str]):
        self.mapping = mapping

    def get_source(self, environment: "Environment", template: str):
        if template in self.mapping:
            source = self.mapping[template]
            return source, None, lambda: source == self.mapping.get(template)
        raise TemplateNotFound(template)


# ---------------------------------------------------------------------------------------
# Environment
# ---------------------------------------------------------------------------------------

# every keyword jinja2.Environment accepts, with its default; a value other than the
# default for an option the stand-in does not implement raises NotImplementedError
_ENV_DEFAULTS: dict[str, Any] = {
    "block_start_string": "{%",
    "block_end_string": "%}",
    "variable_start_string": "{{",
    "variable_end_string": "}}",
    "comment_start_string": "{#",
    "comment_end_string": "#}",
    "line_statement_prefix": None,
    "line_comment_prefix": None,
    "trim_blocks": False,
    "lstrip_blocks": False,
    "newline_sequence": "\n",
    "extensions": (),
    "undefined": Undefined,
    "finalize": None,
    "autoescape": False,
    "bytecode_cache": None,
    "enable_async": False,
}
# implemented, or without any effect on rendering
_ENV_SUPPORTED = ("loader", "keep_trailing_newline", "optimized", "cache_size", "auto_reload")


class Environment:
    def __init__(self, **options: Any):
        for key, value in options.items():
            if key in _ENV_SUPPORTED:
                continue
            if key not in _ENV_DEFAULTS:
                raise TypeError(f"Environment() got an unexpected keyword argument {key!r}")
            default = _ENV_DEFAULTS[key]
            same = value is default or (type(value) is type(default) and value == default)
            if key == "extensions" and not value:
                same = True
            if not same:
                raise NotImplementedError(
                    f"jinja2 stand-in: Environment option {key}={value!r} is not supported "
                    f"(only the default {default!r})"
                )
        self.loader: BaseLoader | None = options.get("loader")
        self.keep_trailing_newline: bool = bool(options.get("keep_trailing_newline", False))
        self.auto_reload: bool = bool(options.get("auto_reload", True))
        self.autoescape = False
        self.trim_blocks = False
        self.lstrip_blocks = False
        self.newline_sequence = "\n"
        self.undefined = Undefined
        self.filters: dict[str, Callable] = dict(_DEFAULT_FILTERS)
        self.tests: dict[str, Callable] = dict(_DEFAULT_TESTS)
        self.globals: dict[str, Any] = {"range": range, "dict": dict}
        self._cache: dict[str, tuple[Template, Callable[[], bool] | None]] = {}

    def getattr(self, obj: Any, attribute: str) -> Any:
        """`obj.attribute` in a template: attribute first, then item."""
        try:
            return getattr(obj, attribute)
        except AttributeError:
            pass
        try:
            return obj[attribute]
        except (TypeError, LookupError, AttributeError):
            return Undefined(obj=obj, name=attribute)

    def getitem(self, obj: Any, argument: Any) -> Any:
        """`obj[argument]` in a template: item first, then attribute for strings."""
        try:
            return obj[argument]
        except (AttributeError, TypeError, LookupError):
            if isinstance(argument, str):
                try:
                    return getattr(obj, argument)
                except AttributeError:
                    pass
            return Undefined(obj=obj, name=argument)

    def get_template(self, name: Any, parent: str | None = None, globals: Any = None) -> Template:
        if isinstance(name, Template):
            return name
        if parent is not None or globals is not None:
            raise NotImplementedError("jinja2 stand-in: get_template(parent=/globals=) is not supported")
        if isinstance(name, Undefined):
            name._fail_with_undefined_error()
        if not isinstance(name, str):
            raise TypeError(f"jinja2 stand-in: template name must be a string, got {type(name).__name__}")
        if self.loader is None:
            raise TypeError("no loader for this environment specified")
        cached = self._cache.get(name)
        if cached is not None:
            tpl, uptodate = cached
            if not self.auto_reload or uptodate is None or uptodate():
                return tpl
        source, filename, uptodate = self.loader.get_source(self, name)
        tpl = Template(self, source, name)
        tpl.filename = filename
        self._cache[name] = (tpl, uptodate)
        return tpl

    def from_string(self, source: str, globals: Any = None, template_class: Any = None) -> Template:
        if globals is not None or template_class is not None:
            raise NotImplementedError("jinja2 stand-in: from_string(globals=/template_class=) is not supported")
        return Template(self, source)
